"""C20 — input files are read and placed on the detector faithfully.

obligations: lean/PyxelModel/Props/C20.lean (placement rule for every size relation / offset /
             alignment keyword, rejection iff no overlap, detector shape, memoised loader over all
             histories of writes/removals/loads, separator detection of text images)
tie to code : Generated/C20.lean (separator tuples, Alignment enum) + differential runs of
             `fit_into_array`, `load_cropped_and_aligned_image`, the `load_image` / `load_charge` /
             `conversion_with_qe_map` models inside real pipelines, `load_image` / `load_table` on
             every format, against the Lean model (`model`) and the statement (`spec`, and an
             independent Python evaluation of the statement).
"""

from __future__ import annotations

import itertools
import json
import os
import shutil
import struct
import sys
import tempfile
import time

import common
from common import LeanDriver, run_check

ALIGNS = [None, "center", "top_left", "top_right", "bottom_left", "bottom_right"]
SEPS = {"tab": "\t", "space": " ", "comma": ",", "bar": "|", "semicolon": ";"}
ZERO_BITS = "0"


# ------------------------------------------------------------------ small helpers
def bits(x) -> str:
    return common.float_bits(float(x))


def unbits(s) -> float:
    return common.bits_float(s)


def grid_bits(a) -> list:
    import numpy as np

    a = np.asarray(a, dtype=np.float64)
    return [[bits(v) for v in row] for row in a]


# ------------------------------------------------------------------ the statement, evaluated in Python
def keyword_offsets(align, ay, ax, oy, ox, pos):
    """offsets (py, px) the statement allows for a keyword (a set: `center` with an odd slack may
    put the odd pixel on either side)"""
    if align is None:
        return [tuple(pos)]

    def half(o, a):
        d = o - a
        return sorted({d // 2, -((-d) // 2)})  # floor and ceiling of d/2

    if align == "center":
        return [(y, x) for y in half(oy, ay) for x in half(ox, ax)]
    if align == "top_left":
        return [(oy - ay, 0)]
    if align == "top_right":
        return [(oy - ay, ox - ax)]
    if align == "bottom_left":
        return [(0, 0)]
    if align == "bottom_right":
        return [(0, ox - ax)]
    raise ValueError(align)


def place_spec(arr_bits, ay, ax, oy, ox, off):
    """None if the input does not overlap the detector, else the detector-shaped grid of bit strings"""
    py, px = off
    if not (set(range(py, py + ay)) & set(range(oy))) or not (set(range(px, px + ax)) & set(range(ox))):
        return None
    out = []
    for i in range(oy):
        row = []
        for j in range(ox):
            r, c = i - py, j - px
            row.append(arr_bits[r][c] if (0 <= r < ay and 0 <= c < ax) else ZERO_BITS)
        out.append(row)
    return out


def statement_fit(case, impl):
    """`fit` clause of the statement on the implementation's answer; None if it holds"""
    ay, ax = case["ay"], case["ax"]
    oy, ox = case["oy"], case["ox"]
    if not case.get("allow", True) and (ay < oy or ax < ox):
        return None  # allow_smaller_array=False is outside the statement
    allowed = []
    for off in keyword_offsets(case["align"], ay, ax, oy, ox, case["pos"]):
        allowed.append(place_spec(case["arr"], ay, ax, oy, ox, off))
    if all(a is None for a in allowed):
        if "err" in impl and impl["err"] == "ValueError":
            return None
        return f"input does not overlap the detector but was not rejected: {str(impl)[:120]}"
    if "err" in impl:
        if any(a is None for a in allowed):
            return None
        return f"overlapping input rejected: {impl}"
    if impl["ok"] in [a for a in allowed if a is not None]:
        return None
    exp = [a for a in allowed if a is not None][0]
    if len(impl["ok"]) != oy or any(len(r) != ox for r in impl["ok"]):
        return f"result shape is not the detector shape ({oy}, {ox})"
    for i in range(oy):
        for j in range(ox):
            if impl["ok"][i][j] != exp[i][j]:
                return (f"detector pixel ({i},{j}) holds {unbits(impl['ok'][i][j])!r}, the statement places "
                        f"{unbits(exp[i][j])!r} there")
    return "differs"


# ------------------------------------------------------------------ implementation side
MSG = [("too small", "tooSmall"), ("Y and X", "noOverlapYX"), ("in Y dimension", "noOverlapY"), ("in X dimension", "noOverlapX")]


def err_answer(e):
    out = {"err": common.err_kind(e), "msg": str(e)[:200]}
    for pat, tag in MSG:
        if pat in str(e):
            out["tag"] = tag
            break
    return out


def np_array(case):
    import numpy as np

    a = np.array([[unbits(v) for v in row] for row in case["arr"]], dtype=np.float64).reshape(case["ay"], case["ax"])
    dt = case.get("dtype", "float64")
    return a.astype(dt)


def impl_fit(case):
    from pyxel.util import fit_into_array

    try:
        out = fit_into_array(np_array(case), (case["oy"], case["ox"]), relative_position=tuple(case["pos"]),
                             align=case["align"], allow_smaller_array=case.get("allow", True))
    except Exception as e:  # noqa: BLE001
        return err_answer(e)
    return {"ok": grid_bits(out), "dtype": str(out.dtype)}


def write_file(path, a, fmt, sep=None, numfmt="%.18e", how="inplace"):
    import numpy as np

    target = path
    if how == "replace":
        path = path + ".new"
    if fmt == "npy":
        with open(path, "wb") as f:
            np.save(f, a)
    elif fmt == "fits":
        from astropy.io import fits

        fits.writeto(path, a, overwrite=True)
    elif fmt in ("txt", "data", "csv"):
        with open(path, "w") as f:
            np.savetxt(f, a, delimiter=sep, fmt=numfmt)
    elif fmt == "fitsmef":
        # multi-extension FITS: empty primary HDU, the image in the first extension, other planes after it
        from astropy.io import fits
        import numpy as np

        hdus = [fits.PrimaryHDU(), fits.ImageHDU(a, name="SCI"), fits.ImageHDU((a.astype(float) * 0 + 7.0).astype("float32"), name="ERR")]
        if a.size % 2 == 0:
            hdus.append(fits.ImageHDU(np.zeros(a.shape, dtype="uint8") + 3, name="DQ"))
        fits.HDUList(hdus).writeto(path, overwrite=True)
    elif fmt == "fitstable":
        from astropy.table import Table

        Table([a[:, k] for k in range(a.shape[1])], names=[f"c{k}" for k in range(a.shape[1])]).write(
            path, format="fits", overwrite=True)
    else:
        raise ValueError(fmt)
    if how == "replace":
        os.replace(path, target)


def ext_of(fmt):
    return {"npy": ".npy", "fits": ".fits", "txt": ".txt", "data": ".data", "csv": ".csv", "fitstable": ".fits", "fitsmef": ".fits"}[fmt]


def run_model(case, path, working_directory=None):
    """run one of the loading models inside a real single-readout exposure; return the bucket"""
    import pyx
    from pyxel.exposure import Exposure, Readout

    det = pyx.make_detector("CCD", case["oy"], case["ox"])
    via = case["via"]
    args = {"position": list(case["pos"]), "align": case["align"]}
    mult, tscale = float(case.get("mult", 1.0)), float(case.get("tscale", 1.0))
    times = [float(t) for t in case.get("times", [1.0])]
    if via == "load_image":
        groups = {"photon_collection": [{"name": "load_image", "func": "pyxel.models.photon_collection.load_image",
                                         "arguments": {"image_file": path, "multiplier": mult, "time_scale": tscale, **args}}]}
        bucket = "photon"
    elif via == "load_charge":
        mult = 1.0
        groups = {"charge_generation": [{"name": "load_charge", "func": "pyxel.models.charge_generation.load_charge",
                                         "arguments": {"filename": path, "time_scale": tscale, **args}}]}
        bucket = "charge"
    elif via == "qe_map":
        groups = {
            "photon_collection": [{"name": "fill", "func": "probes.fill", "arguments": {"level": 1.0, "bucket": "photon"}}],
            "charge_generation": [{"name": "qe", "func": "pyxel.models.charge_generation.conversion_with_qe_map",
                                   "arguments": {"filename": path, "binomial_sampling": False, **args}}],
        }
        bucket = "charge"
    else:
        raise ValueError(via)
    if via == "qe_map":
        mult, tscale, times = 1.0, 1.0, [1.0]
    # the loading model adds to a bucket that is NOT empty: charge clusters already in the detector
    # (load_charge, qe map), or photons already collected (load_image)
    import numpy as np

    already = np.zeros((case["oy"], case["ox"]))
    if case.get("pre_particles") and via in ("load_charge", "qe_map"):
        groups["charge_generation"].insert(0, {"name": "particles", "func": "probes.c20_particles",
                                               "arguments": {"clusters": [list(c) for c in case["pre_particles"]]}})
        for r, c, nb in case["pre_particles"]:
            already[r, c] += nb
    if case.get("pre_photon") and via == "load_image":
        groups["photon_collection"].insert(0, {"name": "fill", "func": "probes.fill",
                                               "arguments": {"level": float(case["pre_photon"]), "bucket": "photon"}})
    mode = Exposure(readout=Readout(times=times), working_directory=working_directory)  # sets the global option
    res = pyx.run(mode, det, pyx.make_pipeline(groups))
    # the bucket of every readout, minus what was there before, divided by the scale the model is asked to apply (all
    # values are dyadic and all factors powers of two, so this is exact): what remains must be the placed content of the file
    steps = [t - p for t, p in zip(times, [0.0] + times[:-1])]
    outs = []
    for i, st in enumerate(steps):
        before = already + (float(case["pre_photon"]) * st if (case.get("pre_photon") and via == "load_image") else 0.0)
        outs.append((res[bucket].values[i] - before) / ((st / tscale) * mult))
    return outs


def impl_load(case, path, working_directory=None):
    """`direct` = load_cropped_and_aligned_image, else through a model"""
    try:
        if case["via"] == "direct":
            import pyxel
            from pyxel.util import load_cropped_and_aligned_image

            pyxel.set_options(working_directory=working_directory)

            out = load_cropped_and_aligned_image(shape=(case["oy"], case["ox"]), filename=path,
                                                 position_x=case["pos"][1], position_y=case["pos"][0],
                                                 align=case["align"])
            ans = {"ok": grid_bits(out)}
            if case.get("mutate"):
                # the caller must not be able to corrupt the cache through the array it received
                try:
                    out *= 3.0
                    ans["mutated"] = "accepted"
                except ValueError:
                    ans["mutated"] = "refused (read-only)"
            return ans
        outs = run_model(case, path, working_directory)
    except Exception as e:  # noqa: BLE001
        return err_answer(e)
    return {"ok": grid_bits(outs[-1]), "all": [grid_bits(o) for o in outs]}


def impl_model_case(case, tmp):
    path = os.path.join(tmp, file_name(case, "in"))
    write_file(path, np_array(case), case["fmt"], SEPS.get(case.get("sep")), case.get("numfmt", "%.18e"))
    return impl_load(case, path)


def real_path(base, logical):
    """logical path -> real path: 'cwd/x' lives under the process's current directory, '/wdK/x' under base"""
    return os.path.join(base, logical.lstrip("/"))


def new_env():
    return {"wd": "", "cwd": "cwd", "links": {}}


def track(env, ev):
    """update working directory / current directory / symbolic links with an event"""
    if ev["ev"] == "setwd":
        env["wd"] = ev["wd"]
    elif ev["ev"] == "chdir":
        env["cwd"] = ev["dir"]
    elif ev["ev"] == "link":
        env["links"][ev["path"]] = ev["target"]


def designated(env, name):
    """the file a (possibly relative) name designates now (logical paths): working directory, else the process's
    current directory; then symbolic links are followed"""
    if isinstance(env, str):
        env = {"wd": env, "cwd": "cwd", "links": {}}
    p = name if name.startswith("/") else ((env["wd"] + "/" + name) if env["wd"] else (env["cwd"] + "/" + name))
    for _ in range(8):
        if p in env["links"]:
            p = env["links"][p]
    return p


def impl_history(case, tmp):
    """events on a few paths inside one process; every load answers {"ok": grid} / {"err": …}"""
    import pyxel

    base = os.path.join(tmp, f"h{case['id']}")
    os.makedirs(os.path.join(base, "cwd"), exist_ok=True)
    os.makedirs(os.path.join(base, "cwd2"), exist_ok=True)
    answers = []
    last_write = 0.0
    wd = ""
    old_cwd = os.getcwd()
    os.chdir(os.path.join(base, "cwd"))
    try:
        for ev in case["events"]:
            if ev["ev"] == "write":
                path = real_path(base, ev["path"])
                os.makedirs(os.path.dirname(path), exist_ok=True)
                # the repaired key is (inode, size, mtime_ns): keep two writes apart in time
                wait = 0.012 - (time.time() - last_write)
                if wait > 0:
                    time.sleep(wait)
                write_file(path, version_array(ev), "npy", how=ev["how"])
                last_write = time.time()
                answers.append(None)
            elif ev["ev"] == "remove":
                path = real_path(base, ev["path"])
                if os.path.exists(path):
                    os.remove(path)
                answers.append(None)
            elif ev["ev"] == "setwd":
                wd = ev["wd"]
                answers.append(None)
            elif ev["ev"] == "chdir":
                os.chdir(os.path.join(base, ev["dir"]))
                answers.append(None)
            elif ev["ev"] == "link":
                path = real_path(base, ev["path"])
                os.makedirs(os.path.dirname(path), exist_ok=True)
                if os.path.lexists(path):
                    os.remove(path)
                os.symlink(real_path(base, ev["target"]), path)
                answers.append(None)
            else:
                name = ev["name"]
                arg = real_path(base, name) if name.startswith("/") else name
                if ev.get("as_path"):
                    from pathlib import Path

                    arg = Path(arg)
                c = {"oy": case["oy"], "ox": case["ox"], "pos": ev["pos"], "align": ev["align"], "via": ev["via"],
                     **{k: ev[k] for k in ("mult", "tscale", "times", "mutate") if k in ev}}
                answers.append(impl_load(c, arg, real_path(base, wd) if wd else None))
    finally:
        os.chdir(old_cwd)
        pyxel.set_options(working_directory=None)
    return answers


def version_array(ev):
    import numpy as np

    r, c = ev["shape"]
    return (np.arange(r * c, dtype=np.float64).reshape(r, c) + 1.0) / 1024.0 + ev["version"] / 8.0


def file_name(case, prefix):
    """the name of the generated input file: plain, with extra dots, spaces, upper / mixed-case suffix"""
    ext = ext_of(case["fmt"])
    style = case.get("name_style", "plain")
    stem = {"plain": f"{prefix}_{case['id']}", "dots": f"{prefix}.v2.{case['id']}", "date": f"{prefix}_2024.01.15_{case['id']}",
            "space": f"{prefix} with space {case['id']}", "dot-number": f"{prefix}_{case['id']}.0001"}.get(style, f"{prefix}_{case['id']}")
    if style == "upper":
        ext = ext.upper()
    elif style == "mixed":
        ext = ext[:2].upper() + ext[2:]
    return stem + ext


def impl_format(case, tmp):
    import numpy as np
    from pathlib import Path

    a = np_array(case)
    path = os.path.join(tmp, file_name(case, "f"))
    write_file(path, a, case["fmt"], SEPS.get(case.get("sep")), case.get("numfmt", "%.18e"))

    def load(p):
        if case["loader"] == "image":
            from pyxel.inputs import load_image

            return np.asarray(load_image(p))
        from pyxel.inputs import load_table

        return load_table(p).to_numpy()

    try:
        if case.get("relink"):
            # the file is reached through a symbolic link given as a pathlib.Path; afterwards the link is re-pointed
            # to a file with other values and loaded again through the same name
            other = os.path.join(tmp, file_name({**case, "id": f"{case['id']}b"}, "f"))
            a2 = (a.astype(float) + 1.0).astype(a.dtype) if a.dtype.kind != "f" else np.where(np.isfinite(a), a + 1.0, 7.0)
            write_file(other, a2, case["fmt"], SEPS.get(case.get("sep")), case.get("numfmt", "%.18e"))
            link = os.path.join(tmp, file_name({**case, "id": f"{case['id']}L"}, "f"))
            os.symlink(path, link)
            b = load(Path(link))
            os.remove(link)
            os.symlink(other, link)
            b2 = load(Path(link))
            if b2.shape != a2.shape or not same_values(grid_bits(b2) if b2.ndim == 2 else [], grid_bits(a2)):
                return {"shape": list(b.shape), "ok": grid_bits(b) if b.ndim == 2 else None,
                        "relink": "the second load through the re-pointed link did not return the new target's content"
                                  + (" (it returned the first target's)" if b2.shape == a.shape and same_values(grid_bits(b2), grid_bits(a)) else "")}, path
        else:
            b = load(Path(path) if case.get("as_path") else path)
    except Exception as e:  # noqa: BLE001
        return err_answer(e), path
    return {"shape": list(b.shape), "ok": grid_bits(b) if b.ndim == 2 else None}, path


def same_values(g1, g2):
    """same values: bit-identical, or both NaN, or ±0 (numerically equal)"""
    import math

    if len(g1) != len(g2):
        return False
    for r1, r2 in zip(g1, g2):
        if len(r1) != len(r2):
            return False
        for x, y in zip(r1, r2):
            if x == y:
                continue
            fx, fy = unbits(x), unbits(y)
            if math.isnan(fx) and math.isnan(fy):
                continue
            if fx == fy:
                continue
            return False
    return True


def statement_format(case, impl):
    if "err" in impl:
        return (f"{case['loader']} loader failed on a {case['fmt']} file"
                + (f" named in the '{case['name_style']}' style" if case.get("name_style", "plain") != "plain" else "")
                + f": {impl['err']} {impl.get('msg', '')[:100]}")
    if impl.get("relink"):
        return f"{case['loader']} loader, {case['fmt']} file reached through a symbolic link (pathlib.Path): {impl['relink']}"
    if impl["shape"] != [case["ay"], case["ax"]]:
        return f"shape {impl['shape']} read back, ({case['ay']}, {case['ax']}) was stored"
    want = grid_bits(np_array(case))
    if not same_values(impl["ok"], want):
        for i, (r1, r2) in enumerate(zip(impl["ok"], want)):
            for j, (x, y) in enumerate(zip(r1, r2)):
                if not same_values([[x]], [[y]]):
                    return f"value at ({i},{j}) read back as {unbits(x)!r}, stored {unbits(y)!r}"
    return None


# ------------------------------------------------------------------ named columns (load_table_v2, apply_qe_curve)
def tablev2_text(case):
    """the file: `ncols` columns, optional header line h0, h1, …; cell (r, c) = exact dyadic value"""
    d = SEPS[case["sep"]]
    lines = []
    if case["header"]:
        lines.append(d.join(case["colnames"]))
    for row in case["table"]:
        lines.append(d.join(repr(unbits(v)) for v in row))
    return "\n".join(lines) + "\n"


def impl_tablev2(case, tmp):
    from pyxel.inputs import load_table_v2

    path = os.path.join(tmp, f"tv2_{case['id']}.{case['fmt']}")
    with open(path, "w") as f:
        f.write(tablev2_text(case))
    rename = {name: (case["colnames"][idx] if case["header"] else idx) for name, idx in case["select"]}
    try:
        df = load_table_v2(filename=path, rename_cols=rename, header=case["header"])
    except Exception as e:  # noqa: BLE001
        return err_answer(e)
    return {"columns": {str(c): [bits(v) for v in df[c].to_numpy(dtype=float)] for c in df.columns}}


def statement_tablev2(case, impl):
    if "err" in impl:
        return f"load_table_v2 failed on a {case['fmt']} table ({case['sep']}-separated, header={case['header']}): {impl['err']} {impl.get('msg', '')[:100]}"
    for name, idx in case["select"]:
        want = [row[idx] for row in case["table"]]
        got = impl["columns"].get(name)
        if got is None:
            return f"requested column '{name}' is missing from the result (columns: {sorted(impl['columns'])})"
        if not same_values([got], [want]):
            others = [n2 for n2, i2 in case["select"] if i2 != idx and same_values([got], [[row[i2] for row in case["table"]]])]
            return (f"column '{name}' (file column {idx}" + (f" '{case['colnames'][idx]}'" if case["header"] else "") + ") does not hold that "
                    "column's values" + (f": it holds the values requested as '{others[0]}'" if others else ""))
    extra = set(impl["columns"]) - {n for n, _ in case["select"]}
    if extra:
        return f"columns that were not requested are returned: {sorted(extra)}"
    return None


def impl_qe_curve(case, tmp):
    """`apply_qe_curve` on a file whose columns are in another order than the request"""
    import numpy as np
    import pyx
    import xarray as xr
    from pyxel.models.charge_generation import apply_qe_curve

    path = os.path.join(tmp, f"qe_{case['id']}.{case['fmt']}")
    with open(path, "w") as f:
        f.write(tablev2_text(case))
    wl_idx = dict(case["select"])["wavelength"]
    qe_idx = dict(case["select"])["QE"]
    wl = np.array([unbits(r[wl_idx]) for r in case["table"]])
    qe = np.array([unbits(r[qe_idx]) for r in case["table"]])
    det = pyx.make_detector("CCD", 2, 3)
    base = np.arange(6, dtype=float).reshape(2, 3) + 1.0
    cube = np.stack([base * (k + 1) for k in range(len(wl))])
    det.photon.array_3d = xr.DataArray(cube, dims=["wavelength", "y", "x"], coords={"wavelength": wl})
    try:
        apply_qe_curve(det, filename=path,
                       wavelength_col_name=case["colnames"][wl_idx] if case["header_names"] else wl_idx,
                       qe_col_name=case["colnames"][qe_idx] if case["header_names"] else qe_idx)
    except Exception as e:  # noqa: BLE001
        return err_answer(e)
    expect = np.trapezoid(cube * qe[:, None, None], x=wl, axis=0)
    got = np.asarray(det.charge.array)
    return {"ok": bool(got.shape == expect.shape and np.allclose(got, expect, rtol=1e-12, atol=0)),
            "got": float(got.flat[0]), "expected": float(expect.flat[0])}


def statement_qe_curve(case, impl):
    if "err" in impl:
        return f"apply_qe_curve failed on a valid QE file whose columns are ordered {case['colnames']}: {impl['err']} {impl.get('msg', '')[:100]}"
    if not impl["ok"]:
        return (f"apply_qe_curve on a file with columns {case['colnames']}: charge {impl['got']!r}, the QE column of the file gives "
                f"{impl['expected']!r} (the named columns do not hold the file's columns)")
    return None


def gen_tablev2(rng, n):
    cases = []
    combos = [(e, sp, h) for e in ("txt", "data", "csv") for sp in SEPS for h in (False, True)]
    for i in range(n):
        fmt, sep, header = combos[i % len(combos)]
        ncols = rng.choice([2, 3, 4, 5])
        nrows = rng.choice([2, 3, 6])
        colnames = rng.sample(["lambda", "QE", "x", "y", "weight", "flux", "t"], ncols)
        table = [[bits(float(rng.randrange(1, 4000)) / rng.choice([1, 4, 64]) + 1000 * c) for c in range(ncols)] for _ in range(nrows)]
        k = rng.choice([1, 2, ncols]) if ncols > 2 else rng.choice([1, 2])
        idxs = rng.sample(range(ncols), min(k, ncols))   # permuted and / or a subset
        if len(idxs) >= 2 and idxs == sorted(idxs) and rng.random() < 0.8:
            idxs.reverse()
        select = [[f"n{j}", idx] for j, idx in enumerate(idxs)]
        cases.append({"stream": "tablev2", "id": i, "fmt": fmt, "sep": sep, "header": header, "colnames": colnames,
                      "table": table, "select": select})
    # apply_qe_curve: the file lists the QE column before / after the wavelength column, with other columns around
    for i, (sep, order) in enumerate([(sp, o) for sp in SEPS for o in (["QE", "lambda"], ["lambda", "QE"], ["x", "QE", "lambda"])]):
        wl = [400.0, 500.0, 650.0, 900.0][: rng.choice([2, 3, 4])]
        rows = []
        for w in wl:
            vals = {"lambda": w, "QE": rng.randrange(1, 64) / 64.0, "x": float(rng.randrange(5))}
            rows.append([bits(vals[c]) for c in order])
        cases.append({"stream": "qe_curve", "id": i, "fmt": rng.choice(["csv", "txt"]), "sep": sep, "header": True, "colnames": order,
                      "table": rows, "select": [["wavelength", order.index("lambda")], ["QE", order.index("QE")]],
                      "header_names": True})
    return cases


# ------------------------------------------------------------------ Lean requests
def req_fit(case):
    # the model sees the float64 value of every pixel (what numpy's assignment into zeros() stores)
    arr = grid_bits(np_array(case)) if case.get("dtype", "float64") != "float64" else case["arr"]
    return {"op": "fit", "rows": arr, "cols": case["ax"], "oy": case["oy"], "ox": case["ox"],
            "pos": list(case["pos"]), "align": case["align"], "allow": case.get("allow", True)}


def lean_fit_answer(ans):
    m = ans["model"]
    return {"ok": m["ok"]} if "ok" in m else {"err": "ValueError", "tag": m["err"]}


def req_memo(case):
    args_ids: dict = {}
    evs = []
    for ev in case["events"]:
        if ev["ev"] == "write":
            evs.append({"ev": "write", "path": ev["path"], "content": ev["version"], "statable": True})
        elif ev["ev"] == "remove":
            evs.append({"ev": "remove", "path": ev["path"]})
        elif ev["ev"] == "setwd":
            evs.append({"ev": "setwd", "wd": ev["wd"]})
        elif ev["ev"] == "chdir":
            evs.append({"ev": "chdir", "dir": ev["dir"]})
        elif ev["ev"] == "link":
            evs.append({"ev": "link", "path": ev["path"], "target": ev["target"]})
        else:
            k = json.dumps([ev["pos"], ev["align"]])
            args_ids.setdefault(k, len(args_ids))
            evs.append({"ev": "load", "name": ev["name"], "args": args_ids[k]})
    return {"op": "memo", "events": evs}, args_ids


def label_history(case, answers, args_ids):
    """canonical form comparable with the Lean trace: for every load [args id, version it shows]"""
    out = []
    written: list = []
    wd = ""
    for ev, ans in zip(case["events"], answers):
        if ev["ev"] == "write":
            written.append(ev)
            out.append(None)
        elif ev["ev"] in ("remove", "setwd", "chdir", "link"):
            out.append(None)
        else:
            aid = args_ids[json.dumps([ev["pos"], ev["align"]])]
            if "err" in ans:
                out.append("OSError" if ans["err"] in ("OSError", "FileNotFoundError") else "err:" + ans["err"] + ":" + ans.get("tag", ""))
                continue
            lab = "unknown"
            for w in written:  # versions are globally distinct
                exp = expected_placed(case, ev, w)
                if exp is not None and exp == ans["ok"]:
                    lab = [aid, w["version"]]
            out.append(lab)
    return out


def expected_placed(case, ev, w):
    a = version_array(w)
    ay, ax = a.shape
    offs = keyword_offsets(ev["align"], ay, ax, case["oy"], case["ox"], ev["pos"])
    from_lean_rounding = offs[0] if ev["align"] != "center" else center_trunc(ay, ax, case["oy"], case["ox"])
    return place_spec(grid_bits(a), ay, ax, case["oy"], case["ox"], from_lean_rounding)


def center_trunc(ay, ax, oy, ox):
    def t(d):
        return d // 2 if d >= 0 else -((-d) // 2)

    return (t(oy - ay), t(ox - ax))


def statement_history(case, answers):
    """`What a model loads always reflects the file's content at the time of the run`"""
    current: dict = {}
    env = new_env()
    for n, (ev, ans) in enumerate(zip(case["events"], answers)):
        if ev["ev"] == "write":
            current[ev["path"]] = ev
        elif ev["ev"] == "remove":
            current.pop(ev["path"], None)
        elif ev["ev"] in ("setwd", "chdir", "link"):
            track(env, ev)
        else:
            wd = env["wd"]
            target = designated(env, ev["name"])
            w = current.get(target)
            if w is None:
                if "err" not in ans:
                    return f"event {n}: load of '{ev['name']}' (designates the missing file '{target}') returned data"
                continue
            a = version_array(w)
            ay, ax = a.shape
            allowed = [place_spec(grid_bits(a), ay, ax, case["oy"], case["ox"], off)
                       for off in keyword_offsets(ev["align"], ay, ax, case["oy"], case["ox"], ev["pos"])]
            if "err" in ans:
                if any(x is None for x in allowed) and ans["err"] == "ValueError":
                    continue
                return f"event {n}: load of an existing, overlapping file failed: {ans}"
            good = [x for x in allowed if x is not None]
            if all(g in good for g in ans.get("all", [ans["ok"]])):
                continue
            if ans["ok"] in good:
                bad = [i for i, g in enumerate(ans["all"]) if g not in good]
                return (f"event {n}: load via {ev['via']} of '{ev['name']}': readout(s) {bad} of {len(ans['all'])} do not hold the "
                        f"file's content scaled by time_step / time_scale * multiplier")
            # which other version is it?
            for o in [e for e in case["events"][:n] if e["ev"] == "write" and e is not w]:
                if expected_placed(case, ev, o) == ans["ok"]:
                    where = "an earlier version of the same file" if o["path"] == target else f"the content of another file ('{o['path']}')"
                    return (f"event {n}: load via {ev['via']} of '{ev['name']}' (working directory '{wd}', designates '{target}') "
                            f"returned version {o['version']} — {where} — although the file holds version {w['version']} "
                            f"(rewritten {w['how']})")
            return (f"event {n}: load via {ev['via']} of '{ev['name']}' (multiplier {ev.get('mult', 1)}, time_scale {ev.get('tscale', 1)}, "
                    f"readout times {ev.get('times', [1.0])}) returned neither the file's content (scaled as requested) nor an earlier version")
    return None


# ------------------------------------------------------------------ generators
def gen_values(rng, ay, ax, style):
    if style == "index":  # every pixel distinct and non-zero: misplacement is visible
        return [[bits(1 + r * ax + c) for c in range(ax)] for r in range(ay)]
    if style == "qe":
        return [[bits(rng.randrange(1, 257) / 256.0) for _ in range(ax)] for _ in range(ay)]
    vals = []
    for _ in range(ay):
        row = []
        for _ in range(ax):
            k = rng.random()
            if k < 0.15:
                row.append(bits(0.0))
            elif k < 0.6:
                row.append(bits(rng.randrange(-50, 70000)))
            else:
                row.append(bits(rng.uniform(-1, 1) * 10.0 ** rng.randrange(-8, 9)))
        vals.append(row)
    return vals


def gen_fit(rng, n):
    cases = []
    for i in range(n):
        ay, ax = rng.choice([1, 1, 2, 3, 4, 5, 7]), rng.choice([1, 2, 2, 3, 4, 6, 9])
        oy, ox = rng.choice([1, 2, 3, 4, 5, 8]), rng.choice([1, 2, 3, 4, 5, 7])
        align = rng.choice(ALIGNS + [None, None])
        pos = [rng.randrange(-ay - 2, oy + 3), rng.randrange(-ax - 2, ox + 3)]
        if rng.random() < 0.1:
            pos = [rng.choice([-10**6, 10**6, -ay, oy, oy - 1, -ay + 1]), rng.choice([-10**9, -ax, ox, ox - 1, -ax + 1])]
        dtype = rng.choice(["float64", "float64", "float64", "int32", "uint16", "float32"])
        style = "index" if dtype != "float64" or rng.random() < 0.6 else "random"
        cases.append({"stream": "fit", "id": i, "ay": ay, "ax": ax, "oy": oy, "ox": ox, "pos": pos, "align": align,
                      "allow": rng.random() >= 0.15, "dtype": dtype, "arr": gen_values(rng, ay, ax, style)})
    return cases


def gen_fit_exhaustive(max_dim, tier):
    """every input shape × detector shape up to max_dim, every offset that can matter (and one
    beyond on each side), explicit offsets; plus every alignment keyword for every shape pair"""
    cases = []
    dims = range(1, max_dim + 1)
    n = 0
    for ay, ax, oy, ox in itertools.product(dims, dims, dims, dims):
        arr = gen_values(None, ay, ax, "index")
        for py in range(-ay - 1, oy + 2):
            for px in range(-ax - 1, ox + 2):
                cases.append({"stream": "fit-exhaustive", "id": n, "ay": ay, "ax": ax, "oy": oy, "ox": ox,
                              "pos": [py, px], "align": None, "allow": True, "dtype": "float64", "arr": arr})
                n += 1
        for al in ALIGNS[1:]:
            for allow in (True, False):
                cases.append({"stream": "fit-align", "id": n, "ay": ay, "ax": ax, "oy": oy, "ox": ox,
                              "pos": [7, -7], "align": al, "allow": allow, "dtype": "float64", "arr": arr})
                n += 1
    return cases


def gen_model_cases(rng, n):
    cases = []
    fmts = [("npy", None), ("fits", None)] + [("txt", s) for s in SEPS] + [("data", "comma")]
    for i in range(n):
        via = rng.choice(["load_image", "load_charge", "qe_map", "direct"])
        ay, ax = rng.choice([1, 2, 3, 5]), rng.choice([1, 2, 4, 6])
        oy, ox = rng.choice([1, 2, 3, 4]), rng.choice([1, 2, 3, 5])
        fmt, sep = fmts[i % len(fmts)] if i < 2 * len(fmts) else rng.choice(fmts)
        align = rng.choice(ALIGNS + [None])
        pos = [rng.randrange(-ay - 1, oy + 2), rng.randrange(-ax - 1, ox + 2)]
        style = "qe" if via == "qe_map" else ("index" if rng.random() < 0.7 else "qe")
        dtype = "float64" if fmt not in ("npy", "fits") or via == "qe_map" else rng.choice(["float64", "float64", "int32", "float32", "uint16", "uint32"])
        if dtype != "float64":
            style = "index"
        extra = {}
        if via in ("load_charge", "qe_map") and rng.random() < 0.6:
            extra["pre_particles"] = [[rng.randrange(oy), rng.randrange(ox), float(rng.choice([256, 1024, 4096]))]
                                      for _ in range(rng.choice([1, 2, 3]))]
        if via == "load_image" and rng.random() < 0.5:
            extra["pre_photon"] = float(rng.choice([64, 512, 2048]))
        cases.append({"stream": "model", "id": i, "via": via, "fmt": fmt, "sep": sep, "ay": ay, "ax": ax, "oy": oy, "ox": ox,
                      "pos": pos, "align": align, "dtype": dtype, "arr": gen_values(rng, ay, ax, style),
                      "numfmt": rng.choice(["%.18e", "%.17g"]),
                      "name_style": rng.choice(["plain", "plain", "dots", "date", "space", "upper", "mixed"]), **extra})
    # directed: load_charge into non-square detectors that already hold charge clusters
    for k, (oy, ox) in enumerate([(3, 5), (5, 3), (2, 7), (4, 1)]):
        for align in (None, "center"):
            cases.append({"stream": "model", "id": f"particles{k}{align}", "via": "load_charge", "fmt": "npy", "sep": None,
                          "ay": 2, "ax": 3, "oy": oy, "ox": ox, "pos": [1, 0] if oy > 1 else [0, 0], "align": align, "dtype": "float64",
                          "arr": gen_values(rng, 2, 3, "index"), "numfmt": "%.18e", "pre_particles": [[oy - 1, ox - 1, 4096.0], [0, 0, 256.0]]})
    return cases


def gen_history(rng, n):
    """histories of writes / removals / changes of working directory / loads in one process.
    Logical paths: 'cwd/<name>' (under the process's current directory), '/wd1/<name>', '/wd2/<name>'."""
    cases = []
    for i in range(n):
        oy, ox = rng.choice([2, 3, 4]), rng.choice([2, 3, 5])
        with_wd = i % 2 == 1
        names = ["data/a.npy", "b.npy"][: rng.choice([1, 1, 2])]
        roots = ["cwd", "/wd1", "/wd2"] if with_wd else ["/abs"]
        events, version = [], 0
        shapes: dict = {}
        fixed_args = {"pos": [rng.randrange(-1, 2), rng.randrange(-1, 2)], "align": rng.choice(ALIGNS + [None, None])}

        def write(path, how=None, new_shape=False):
            nonlocal version
            version += 1
            if path not in shapes or new_shape:
                shapes[path] = [rng.choice([2, 3, 4]), rng.choice([2, 3, 4])]  # always overlaps for |offset| ≤ 1
            events.append({"ev": "write", "path": path, "version": version, "shape": shapes[path],
                           "how": how or rng.choice(["inplace", "inplace", "replace"])})

        def load(name, via=None, fixed=True):
            a = dict(fixed_args) if fixed else {"pos": [rng.randrange(-1, 2), rng.randrange(-1, 2)], "align": None}
            via = via or rng.choice(["direct", "direct", "load_image", "load_image", "load_charge"])
            ev = {"ev": "load", "name": name, "via": via, **a}
            if via == "direct":
                ev["mutate"] = rng.random() < 0.5
            else:
                # the models scale what they load: time_step / time_scale (* multiplier), powers of two only
                ev["tscale"] = rng.choice([1.0, 0.5, 2.0, 4.0])
                ev["times"] = rng.choice([[1.0], [2.0], [2.0, 3.0, 5.0], [0.5, 1.0]])
                if via == "load_image":
                    ev["mult"] = rng.choice([1.0, 2.0, 0.5, 4.0])
            events.append(ev)

        def ref(root, name):  # how a model would name the file
            return f"{root}/{name}" if root.startswith("/") and (not with_wd or rng.random() < 0.25) else name

        wd = ""
        if with_wd:
            # a same-named bystander under the current directory (usually), the real input under /wd1
            if rng.random() < 0.8:
                write(f"cwd/{names[0]}", "inplace")
            write(f"/wd1/{names[0]}", "inplace")
            if rng.random() < 0.5:
                write(f"/wd2/{names[0]}", "inplace")
            wd = "/wd1"
            events.append({"ev": "setwd", "wd": wd})
        else:
            for nm in names:
                write(f"/abs/{nm}", "inplace")
        for k in range(rng.choice([3, 4, 6, 8])):
            nm = rng.choice(names)
            r = rng.random()
            if k == 0 or r < 0.45:
                if with_wd:
                    load(nm if rng.random() < 0.8 else f"{rng.choice(['/wd1', '/wd2'])}/{nm}", fixed=rng.random() < 0.8)
                else:
                    load(f"/abs/{nm}", fixed=rng.random() < 0.8)
            elif r < 0.8:
                root = rng.choice(roots)
                write(f"{root}/{nm}" if root.startswith("/") else f"cwd/{nm}", new_shape=rng.random() < 0.25)
            elif r < 0.9:
                root = rng.choice(roots)
                events.append({"ev": "remove", "path": f"{root}/{nm}" if root.startswith("/") else f"cwd/{nm}"})
            elif with_wd:
                wd = rng.choice(["", "/wd1", "/wd2"])
                events.append({"ev": "setwd", "wd": wd})
        # always end with: load, rewrite of the designated file (same shape ⇒ same size), the same load again
        nm = names[0]
        if with_wd:
            wd = "/wd1"
            events.append({"ev": "setwd", "wd": wd})
            target, name = f"/wd1/{nm}", nm
        else:
            target = name = f"/abs/{nm}"
        if target not in shapes:
            write(target, "inplace")
        load(name, via="direct")
        write(target)
        load(name, via=rng.choice(["direct", "load_image", "load_charge"]))
        load(name, via="direct")
        # the same unchanged file loaded several times more, through the scaling models and directly
        for via in rng.sample(["load_image", "load_image", "load_charge", "direct"], 3):
            load(name, via=via)
        cases.append({"stream": "history", "id": i, "oy": oy, "ox": ox, "events": events})
    return cases


def gen_link_history(rng, n):
    """histories in which the NAME stays the same and the file it designates changes: a symbolic link that is
    re-pointed, a relative name while the process changes directory — names given as pathlib.Path (and as str)"""
    cases = []
    for i in range(n):
        oy, ox = rng.choice([2, 3, 4]), rng.choice([2, 3, 5])
        args = {"pos": [rng.randrange(-1, 2), rng.randrange(-1, 2)], "align": rng.choice(ALIGNS + [None, None])}
        events, version = [], 0
        shape = [rng.choice([2, 3, 4]), rng.choice([2, 3, 4])]

        def write(path):
            nonlocal version
            version += 1
            events.append({"ev": "write", "path": path, "version": version, "shape": shape, "how": "inplace"})

        def load(name, as_path=True):
            via = rng.choice(["direct", "load_image", "load_charge"])
            ev = {"ev": "load", "name": name, "via": via, "as_path": as_path, **args}
            if via != "direct":
                ev["tscale"] = rng.choice([1.0, 2.0])
                ev["times"] = [1.0]
                if via == "load_image":
                    ev["mult"] = rng.choice([1.0, 0.5])
            events.append(ev)

        root = rng.choice(["cwd", "/abs"])          # where the link lives: relative name or absolute name
        link = f"{root}/data/L.npy"
        name = "data/L.npy" if root == "cwd" else link
        write(f"{root}/data/a.npy")
        write(f"{root}/data/b.npy")
        write("cwd/rel.npy")
        write("cwd2/rel.npy")
        events.append({"ev": "link", "path": link, "target": f"{root}/data/a.npy"})
        load(name)
        if rng.random() < 0.5:
            load(name, as_path=rng.random() < 0.5)
        events.append({"ev": "link", "path": link, "target": f"{root}/data/b.npy"})
        load(name)
        load(name, as_path=rng.random() < 0.7)
        load("rel.npy")
        events.append({"ev": "chdir", "dir": "cwd2"})
        load("rel.npy")
        if rng.random() < 0.5:
            events.append({"ev": "chdir", "dir": "cwd"})
            load("rel.npy", as_path=rng.random() < 0.7)
            if root == "cwd":
                events.append({"ev": "link", "path": link, "target": f"{root}/data/a.npy"})
                load(name)
        cases.append({"stream": "history", "id": f"link{i}", "oy": oy, "ox": ox, "events": events})
    return cases


def special_floats(rng):
    return rng.choice([float("nan"), float("inf"), -float("inf"), -0.0, 0.0, 5e-324, 1.7976931348623157e308,
                       2.2250738585072014e-308, 0.1, 1 / 3])


def gen_format(rng, n):
    cases = []
    combos = ([("image", "npy", None), ("image", "fits", None), ("image", "fitsmef", None), ("table", "npy", None), ("table", "fitstable", None)]
              + [("image", e, s) for e in ("txt", "data") for s in SEPS]
              + [("table", e, s) for e in ("txt", "data", "csv") for s in SEPS])
    for i in range(n):
        loader, fmt, sep = combos[i % len(combos)]
        ay, ax = rng.choice([1, 1, 2, 3, 5]), rng.choice([1, 1, 2, 3, 4])
        if (i // len(combos)) % 3 == 2:
            # wide and long tables / images: rows far longer than any sampling window, many rows
            ay, ax = rng.choice([12, 20, 41]), rng.choice([5, 8, 13, 24])
        kind = rng.choice(["int", "float", "bits", "special"])
        dtype = "float64"
        if fmt in ("npy", "fits", "fitsmef") and loader == "image":
            # every pixel type in turn (unsigned FITS images are stored with BZERO and rescaled on reading)
            dtype = ["float64", "uint16", "int32", "float32", "uint32", "int16", "uint8", "int64", "float64"][(i // len(combos)) % 9]
            if dtype != "float64":
                kind = "int"
        arr = []
        for _ in range(ay):
            row = []
            for _ in range(ax):
                if kind == "int":
                    v = float(rng.randrange(0, 60000))
                elif kind == "float":
                    v = rng.uniform(-1, 1) * 10.0 ** rng.randrange(-30, 30)
                elif kind == "bits":
                    v = struct.unpack("<d", struct.pack("<Q", rng.getrandbits(64)))[0]
                    if v != v:
                        v = 1.5
                else:
                    v = special_floats(rng) if rng.random() < 0.5 else float(rng.randrange(-9, 9))
                row.append(bits(v))
            arr.append(row)
        cases.append({"stream": "format", "id": i, "loader": loader, "fmt": fmt, "sep": sep, "ay": ay, "ax": ax, "dtype": dtype,
                      "arr": arr, "numfmt": rng.choice(["%.18e", "%.18e", "%.17g", "%s"]),
                      "name_style": rng.choice(["plain", "plain", "dots", "date", "space", "upper", "mixed", "dot-number"]),
                      "as_path": rng.random() < 0.4, "relink": rng.random() < 0.15})
    return cases


# ------------------------------------------------------------------ per-case evaluation (used by body and --replay)
def evaluate(case, tmp):
    """returns (impl, why) — `why` is None when the statement holds on this input"""
    s = case["stream"]
    if s.startswith("fit"):
        impl = impl_fit(case)
        return impl, statement_fit(case, impl)
    if s == "model":
        impl = impl_model_case(case, tmp)
        return impl, statement_fit(case, impl)
    if s == "history":
        answers = impl_history(case, tmp)
        return answers, statement_history(case, answers)
    if s == "format":
        impl, _ = impl_format(case, tmp)
        return impl, statement_format(case, impl)
    if s == "tablev2":
        impl = impl_tablev2(case, tmp)
        return impl, statement_tablev2(case, impl)
    if s == "qe_curve":
        impl = impl_qe_curve(case, tmp)
        return impl, statement_qe_curve(case, impl)
    raise ValueError(s)


def violation_key(case, why):
    s = case["stream"]
    if s.startswith("fit"):
        return "C20:fit_into_array:" + ("no-overlap" if "overlap" in why or "rejected" in why else "placement")
    if s == "model":
        return f"C20:{case['via']}:placement"
    if s == "history":
        return "C20:stale-cache" if ("returned version" in why or "missing file" in why) else "C20:loaded-value-not-file-content" if ("neither the file" in why or "do not hold" in why) else "C20:history"
    if s == "tablev2":
        return "C20:load_table_v2:" + ("named-column-holds-other-column" if "does not hold" in why else "error-or-missing")
    if s == "qe_curve":
        return "C20:apply_qe_curve:named-columns"
    if s == "format" and "symbolic link" in why:
        return f"C20:load_{case['loader']}:stale-path-resolution"
    if s == "format" and "named in the" in why and ("not supported" in why or "implemented" in why):
        return f"C20:load_{case['loader']}:file-name"
    return f"C20:load_{case['loader']}:{'text' if case['fmt'] in ('txt', 'data', 'csv') else case['fmt']}:" + (
        "values" if "value at" in why else "shape-or-error")


def body(ck: common.Check):
    import extract

    extract.generate("C20")
    ck.obligations(["PyxelModel.Props.C20"], ["PyxelModel.Drive.C20"])
    rng = ck.rng
    quick = ck.tier == "quick"
    cases = []
    cases += gen_fit_exhaustive(3 if quick else 4, ck.tier)
    cases += gen_fit(rng, 1500 if quick else 15000)
    cases += gen_model_cases(rng, 250 if quick else 2000)
    cases += gen_history(rng, 50 if quick else 400)
    cases += gen_link_history(rng, 16 if quick else 120)
    cases += gen_format(rng, 600 if quick else 6000)
    cases += gen_tablev2(rng, 120 if quick else 1200)

    tmp = tempfile.mkdtemp(prefix="verif-c20-")
    try:
        # ---- Lean side, one batch
        reqs, memo_ids, text_payload = [], {}, {}
        for n, c in enumerate(cases):
            s = c["stream"]
            if s.startswith("fit") or s == "model":
                reqs.append(req_fit(c))
            elif s == "history":
                r, ids = req_memo(c)
                memo_ids[n] = ids
                reqs.append(r)
            elif s == "format":
                if c["loader"] == "image" and c["fmt"] in ("txt", "data"):
                    import io

                    import numpy as np

                    buf = io.StringIO()
                    np.savetxt(buf, np_array(c), delimiter=SEPS[c["sep"]], fmt=c["numfmt"])
                    reqs.append({"op": "text", "lines": buf.getvalue().splitlines()})
                else:
                    reqs.append({"op": "text", "lines": []})  # placeholder keeps the batch aligned
            elif s in ("tablev2", "qe_curve"):
                reqs.append({"op": "select", "table": c["table"], "sel": c["select"]})
        answers = LeanDriver("C20").batch(reqs)

        for n, (case, ans) in enumerate(zip(cases, answers)):
            if "bad" in ans:
                raise common.InfraError(f"driver rejected request: {ans} for {str(case)[:300]}")
            s = case["stream"]
            impl, why = evaluate(case, tmp)
            if s.startswith("fit") or s == "model":
                ay, ax, oy, ox = case["ay"], case["ax"], case["oy"], case["ox"]
                rel = ("smaller" if ay <= oy and ax <= ox else "larger" if ay >= oy and ax >= ox else "mixed")
                ck.case(case if s != "fit-exhaustive" else {k: v for k, v in case.items() if k != "arr"},
                        nontrivial=(ay * ax > 1 or oy * ox > 1), stream=s)
                ck.count(f"{s}:size={rel}")
                ck.count(f"{s}:align={case['align']}")
                ck.count(f"{s}:outcome={'ok' if 'ok' in impl else impl.get('tag', impl['err'])}")
                if s == "model":
                    ck.count(f"model:via={case['via']}")
                    ck.count("model:bucket-before-load=" + ("charge clusters" if case.get("pre_particles") and case["via"] != "load_image" and case["via"] != "direct"
                                                             else "photons" if case.get("pre_photon") and case["via"] == "load_image" else "empty")
                             + (":non-square" if case["oy"] != case["ox"] else ":square"))
                    ck.count(f"model:fmt={case['fmt']}" + (f"/{case['sep']}" if case["sep"] else ""))
                model = lean_fit_answer(ans)
                mine = {"ok": impl["ok"]} if "ok" in impl else {"err": impl["err"], "tag": impl.get("tag")}
                if mine != model:
                    ck.disagreement(s, case, mine, model)
                # Lean's own `spec` must agree with the Python evaluation of the statement (harness self-check)
                spec = ans["spec"]
                if why is None and case.get("allow", True):
                    centre_odd = case["align"] == "center" and ((oy - ay) % 2 or (ox - ax) % 2)
                    if "ok" in impl and "ok" in spec and spec["ok"] != impl["ok"] and not centre_odd:
                        raise common.InfraError(f"python predicate and Lean spec disagree — harness bug: {case}")
                    if ("err" in impl) != ("err" in spec):
                        raise common.InfraError(f"python predicate and Lean spec disagree on rejection — harness bug: {case}")
            elif s == "history":
                ck.case(case, nontrivial=True, stream=s)
                for ev in case["events"]:
                    if ev["ev"] == "load" and ev["via"] != "direct":
                        scaled = (ev.get("mult", 1.0) != 1.0 or ev.get("tscale", 1.0) != 1.0 or ev.get("times", [1.0]) != [1.0])
                        ck.count("history:model-load:" + ("scale!=1" if scaled else "scale=1") + f":readouts={len(ev.get('times', [1.0]))}")
                    ck.count(f"history:{ev['ev']}" + (f":{ev['how']}" if ev["ev"] == "write" else "")
                             + (f":{ev['via']}:{'absolute' if ev['name'].startswith('/') else 'relative'}" if ev["ev"] == "load" else "")
                             + ((":set" if ev["wd"] else ":unset") if ev["ev"] == "setwd" else "")
                             + (":as-Path" if ev["ev"] == "load" and ev.get("as_path") else ""))
                for a in impl:
                    if a and a.get("mutated"):
                        ck.count("history:mutation-of-returned-array:" + a["mutated"])
                lab = label_history(case, impl, memo_ids[n])
                if lab != ans["model"]:
                    ck.disagreement(s, case, lab, ans["model"], key="C20:stale-cache" if lab in (ans["stale"], ans["unresolved"]) else None)
                    ck.count("history:behaves-like-unrepaired-keying" if lab == ans["stale"] else
                             "history:behaves-like-identity-of-unresolved-name" if lab == ans["unresolved"] else
                             "history:behaves-like-remembered-name-resolution" if lab == ans["sticky_resolution"] else "history:other-disagreement")
                if ans["model"] != ans["spec"]:
                    raise common.InfraError("Lean memo model and its spec disagree — model bug")
            elif s in ("tablev2", "qe_curve"):
                ck.case(case, nontrivial=True, stream=s)
                idxs = [i for _, i in case["select"]]
                ck.count(f"{s}:{case['fmt']}/{case['sep']}:" + ("header" if case["header"] else "no-header"))
                ck.count(f"{s}:request=" + ("file-order" if idxs == sorted(idxs) else "permuted") + (":subset" if len(idxs) < len(case["table"][0]) else ":all"))
                if s == "tablev2":
                    model = {n: v for n, v in ans["model"]}
                    mine = None if "err" in impl else impl["columns"]
                    if mine is None or set(mine) != set(model) or any(not same_values([mine[k]], [model[k]]) for k in model):
                        positional = {n: v for n, v in ans["positional"]}
                        like = mine is not None and set(mine) == set(positional) and all(same_values([mine[k]], [positional[k]]) for k in positional)
                        ck.count("tablev2:behaves-like-positional-naming" if like else "tablev2:other-disagreement")
                        ck.disagreement(s, case, mine, model)
            elif s == "format":
                ck.case(case, nontrivial=case["ay"] * case["ax"] > 1, stream=s)
                ck.count(f"format:{case['loader']}:{case['fmt']}" + (f"/{case['sep']}" if case["sep"] else ""))
                ck.count(f"format:outcome={'ok' if 'ok' in impl else 'error'}")
                ck.count("format:size=" + ("wide-and-long" if case["ax"] >= 5 and case["ay"] >= 12 else "small"))
                ck.count(f"format:file-name={case.get('name_style', 'plain')}")
                if case["loader"] == "image" and case["fmt"] in ("npy", "fits"):
                    ck.count(f"format:image:{case['fmt']}:dtype={case['dtype']}")
                ck.count("format:given-as=" + ("Path through a re-pointed symlink" if case.get("relink") else "Path" if case.get("as_path") else "str"))
                if case["loader"] == "image" and case["fmt"] in ("txt", "data"):
                    m = ans["model"]
                    model = None if m is None else {"shape": [len(m), len(m[0]) if m else 0],
                                                    "ok": [[bits(float(t)) for t in row] for row in m]}
                    mine = None if "err" in impl else {"shape": impl["shape"], "ok": impl["ok"]}
                    if (model is None) != (mine is None) or (model and (model["shape"] != mine["shape"] or not same_values(model["ok"], mine["ok"]))):
                        ck.disagreement("format-text", case, mine, model)
            if why is not None:
                ck.violation(violation_key(case, why), why, {"case": case, "impl": impl})
    finally:
        shutil.rmtree(tmp, ignore_errors=True)

    ck.rule = ("fit_into_array: every input shape × detector shape up to %d×%d with every offset from one beyond the left/bottom "
               "to one beyond the right/top and every alignment keyword (exhaustive), plus random shapes up to 7×9 on detectors up to 8×7, "
               "far offsets, 4 dtypes, allow_smaller on/off; the same through load_image / load_charge / conversion_with_qe_map in a real "
               "exposure and load_cropped_and_aligned_image, from npy / FITS / text×5 separators; histories of writes (in place / atomic "
               "replace, same and different sizes), removals and loads in one process; format round trips of load_image and load_table "
               "(npy, FITS image / FITS table, txt/data/csv × 5 separators; one third of the files 12-41 rows × 5-24 columns; ints, random doubles, arbitrary bit patterns, NaN/inf/±0/"
               "subnormal); load_table_v2 with rename_cols selecting all / a subset of 2-5 file columns in file or permuted order, by index "
               "and by header name, txt/data/csv × 5 separators; apply_qe_curve on QE files whose columns are ordered either way. non-trivial = more than one pixel; distinct by canonical JSON" % ((3, 3) if quick else (4, 4)))
    ck.assumptions = [
        "6b: an error is required iff the row ranges or the column ranges are disjoint; allow_smaller_array=False is outside the statement",
        "`center` with an odd slack: the statement accepts either neighbouring offset; the model (truncation toward zero) is compared separately",
        "same values = numerically equal doubles (NaN = NaN, -0.0 = 0.0)",
        "rewrites of one path are at least 12 ms apart or change inode/size (the repaired cache key is st_ino, st_size, st_mtime_ns)",
        "files that cannot be stat-ed (remote URLs) bypass the cache in the repaired code; not exercised (no network)",
    ]
    ck.trusted_base.append("C20: numpy slicing/assignment, np.save/np.load, astropy FITS, np.savetxt/np.loadtxt, pandas read_csv as contracts "
                           "(exercised by the format stream); os.stat identity changes whenever a file's content changes")


def replay(path):
    common.ensure_repo_on_path()
    rp = json.load(open(path))
    case = rp["replay"].get("case")
    if case is None:
        print("replay names a broken obligation/correspondence, no concrete input:", rp["what"])
        return 1
    tmp = tempfile.mkdtemp(prefix="verif-c20-replay-")
    try:
        impl, why = evaluate(case, tmp)
    finally:
        shutil.rmtree(tmp, ignore_errors=True)
    print("impl:", str(impl)[:1500])
    print("REPRODUCED: " + why if why else "not reproduced (property holds on this input)")
    return 1 if why else 0


if __name__ == "__main__":
    if len(sys.argv) > 2 and sys.argv[1] == "--replay":
        sys.exit(replay(sys.argv[2]))
    sys.exit(run_check("C20", body))
