"""C18 — a detector saved to a file and loaded back is the same detector.

obligations: lean/PyxelModel/Props/C18.lean (round trip for every key table that passes `Tables.ok`,
             instantiated with today's tables of the four detector types; the load model replaces the
             running detector's containers for every pipeline prefix / suffix)
tie to code : Generated/C18.lean (container attributes, keys written by `to_dict`, keys fetched by
             `from_dict` through a recording mapping, constructor parameters and written keys of the
             property classes — obtained by running today's code) + ASDF round trips of generated
             detectors compared field by field (never with the library's `==`) + real pipelines
             containing `pyxel.models.load_detector` at any position.
HDF5: h5py is not installed in this sandbox — only the ASDF backend is exercised.
"""

from __future__ import annotations

import hashlib
import json
import os
import shutil
import sys
import tempfile

import common
from common import LeanDriver, run_check

TYPES = ["CCD", "CMOS", "MKID", "APD"]
GROUPS = ["scene_generation", "photon_collection", "phasing", "charge_generation", "charge_collection",
          "charge_transfer", "charge_measurement", "signal_transfer", "readout_electronics", "data_processing"]
PARTS = ["geometry", "environment", "characteristics"]


# ------------------------------------------------------------------ canonical, field-by-field snapshot
def canon(x):
    import numpy as np

    try:
        import pandas as pd
        import xarray as xr
    except Exception:  # pragma: no cover
        pd = xr = None
    if x is None or isinstance(x, (bool, str)):
        return x
    if isinstance(x, np.ndarray):
        a = np.ascontiguousarray(x)
        if a.dtype.kind in "OUS":
            return {"dtype": str(a.dtype), "shape": list(a.shape), "values": [canon(v) for v in a.ravel().tolist()]}
        native = a.astype(a.dtype.newbyteorder("="))
        return {"dtype": str(native.dtype), "shape": list(a.shape), "hex": native.tobytes().hex()}
    if isinstance(x, np.generic):
        return canon(x.item())
    if xr is not None and isinstance(x, xr.DataArray):
        d = canon(x.to_dict())
        d["dtype"] = str(x.dtype)  # `to_dict` turns the values into nested lists: keep the element type
        for k in list(d.get("coords", {})):
            if isinstance(d["coords"][k], dict):
                d["coords"][k]["dtype"] = str(x.coords[k].dtype)
        return d
    if xr is not None and isinstance(x, xr.Dataset):
        d = canon(x.to_dict())
        for group in ("data_vars", "coords"):
            for k in list(d.get(group, {})):
                if isinstance(d[group][k], dict):
                    d[group][k]["dtype"] = str(x[k].dtype)
        return d
    if xr is not None and isinstance(x, xr.DataTree):
        return {k: canon(v) for k, v in sorted(x.to_dict().items())}
    if pd is not None and isinstance(x, pd.DataFrame):
        return {"columns": [str(c) for c in x.columns], "rows": [[canon(v) for v in row] for row in x.to_numpy().tolist()]}
    if isinstance(x, dict):
        return {str(k): canon(v) for k, v in sorted(x.items(), key=lambda kv: str(kv[0]))}
    if isinstance(x, (list, tuple)):
        return [canon(v) for v in x]
    if isinstance(x, float):
        return {"f": x.hex()}
    if isinstance(x, int):
        return x
    if hasattr(x, "to_dict"):
        return canon(x.to_dict())
    return {"repr": repr(x)}


def prop_names(det, part):
    import inspect

    obj = getattr(det, part)
    return [p for p in inspect.signature(type(obj).__init__).parameters if p != "self"]


def snapshot(det):
    """what the statement compares: type, shape, every property, every data container"""
    import numpy as np

    out = {"type": type(det).__name__, "shape": list(det.geometry.shape), "props": {}, "containers": {}}
    for part in PARTS:
        obj = getattr(det, part)
        for name in prop_names(det, part):
            try:
                v = getattr(obj, name)
            except ValueError:
                # an unset optional property — or one set to 0.0, which some getters report as "not specified":
                # the stored value decides
                v = obj.to_dict().get(name)
            out["props"][f"{part}.{name}"] = canon_prop(v)
    from probes import charge_frame, container, held_array

    c = out["containers"]
    ph = container(det, "photon")
    held = None if ph is None else held_array(ph)
    if held is None:
        c["photon"] = None
    elif isinstance(held, np.ndarray):
        c["photon"] = {"array_2d": canon(ph.array)}
    else:
        cube = canon(ph.array_3d)
        # 6b compares dtype, shape, values and coordinates; the DataArray's name and free-form attributes are not data
        c["photon"] = {"array_3d": {k: v for k, v in cube.items() if k not in ("name", "attrs")}}
    for name in ("pixel", "signal", "image", "phase"):
        if not hasattr(type(det), name):
            continue
        cont = container(det, name)
        held = None if cont is None else held_array(cont)
        c[name] = None if held is None else canon(np.asarray(held))
    ch = container(det, "charge")
    if ch is None or (charge_frame(ch).empty and not np.any(ch.array)):
        c["charge"] = None  # the state of a charge container nothing was added to
    else:
        c["charge"] = {"array": canon(np.asarray(ch.array)), "frame": canon(ch.frame)}
    sc = container(det, "scene")
    tree = None if sc is None else canon(sc.data)
    c["scene"] = None if (tree is None or all(not v.get("data_vars") for v in tree.values())) else tree
    dt = container(det, "data")
    tree = None if dt is None else canon(dt)
    c["data"] = None if (tree is None or tree_is_blank(tree)) else tree
    return out


def tree_is_blank(tree):
    """a processed-data tree nothing was put into: only the root, without variables, coordinates or attributes
    (a group that holds only coordinates or nothing at all IS content: the trees must stay isomorphic)"""
    return list(tree) == ["/"] and not any(tree["/"].get(k) for k in ("data_vars", "coords", "attrs"))


def data_tree_canon(det):
    from probes import container

    dt = container(det, "data")
    tree = canon(dt) if dt is not None else None
    return None if (tree is None or tree_is_blank(tree)) else tree


def token(x):
    return None if x is None else hashlib.sha1(json.dumps(x, sort_keys=True).encode()).hexdigest()[:16]


def token_store(st):
    return {k: token(v) for k, v in st.items()}


def first_difference(a, b, path=""):
    if type(a) is not type(b):
        return f"{path}: {str(a)[:60]!r} != {str(b)[:60]!r}"
    if isinstance(a, dict):
        for k in sorted(set(a) | set(b)):
            if k not in a or k not in b:
                return f"{path}.{k}: present on one side only"
            d = first_difference(a[k], b[k], f"{path}.{k}")
            if d:
                return d
        return None
    if isinstance(a, list):
        if len(a) != len(b):
            return f"{path}: length {len(a)} != {len(b)}"
        for i, (x, y) in enumerate(zip(a, b)):
            d = first_difference(x, y, f"{path}[{i}]")
            if d:
                return d
        return None
    return None if a == b else f"{path}: {str(a)[:60]!r} != {str(b)[:60]!r}"


# ------------------------------------------------------------------ building detectors from descriptions
def arr_from(desc, rows, cols):
    import numpy as np

    base = np.arange(rows * cols, dtype=np.float64).reshape(rows, cols)
    a = base * desc.get("slope", 1.0) + desc.get("offset", 0.0)
    for (i, j, v) in desc.get("pokes", []):
        a[i % rows, j % cols] = v
    return a.astype(desc.get("dtype", "float64"))


def decode_value(v):
    """legal representations of a property value that JSON cannot carry: {"np": dtype, "v": x} a numpy scalar,
    {"tuple": [...]} a tuple; plain ints stay ints, lists stay lists"""
    import numpy as np

    if isinstance(v, dict) and "np" in v:
        return np.dtype(v["np"]).type(v["v"])
    if isinstance(v, dict) and "tuple" in v:
        return tuple(decode_value(x) for x in v["tuple"])
    if isinstance(v, list):
        return [decode_value(x) for x in v]
    return v


def canon_prop(v):
    """properties are compared by value: 600 (int), 600.0 and np.float64(600) are the same wavelength; a pair is a pair
    whether it is a tuple or a list — but its ORDER is part of the value"""
    import numpy as np

    if isinstance(v, (bool, str)) or v is None:
        return v
    if isinstance(v, (int, float, np.integer, np.floating)):
        return {"f": float(v).hex()}
    if isinstance(v, (list, tuple, np.ndarray)):
        return [canon_prop(x) for x in v]
    if isinstance(v, dict):
        return {str(k): canon_prop(x) for k, x in sorted(v.items())}
    if hasattr(v, "to_dict"):
        return canon_prop(v.to_dict())
    return canon(v)


def build_detector(d):
    import numpy as np
    import pyx
    import xarray as xr
    from pyxel.detectors import WavelengthHandling

    env = dict(d["environment"])
    if isinstance(env.get("wavelength"), dict):
        env["wavelength"] = WavelengthHandling(**env["wavelength"])
    ch = dict(d["characteristics"])
    if ch.get("adc_voltage_range") is not None:
        ch["adc_voltage_range"] = tuple(ch["adc_voltage_range"])
    det = pyx.make_detector(d["type"], d["rows"], d["cols"], geometry=d["geometry"], environment=env, characteristics=ch)
    applied = []
    for part, name, value, *via in d.get("setters", []):
        try:
            if isinstance(value, dict) and "rel" in value:  # relative to the detector's current state
                value = getattr(getattr(det, part), value["rel"]) + value["plus"]
            else:
                value = decode_value(value)
            if via and via[0] == "processor":  # the way a sweep / override sets it
                from pyxel.pipelines import DetectionPipeline, Processor

                Processor(detector=det, pipeline=DetectionPipeline()).set(f"detector.{part}.{name}", value)
            else:
                setattr(getattr(det, part), name, value)
            applied.append([part, name])
        except Exception:  # noqa: BLE001  (a value the setter refuses is simply not applied)
            pass
    if d["type"] == "APD":
        # a setter may accept a voltage for which the derived quantities are undefined (bias < 1 V): such a
        # detector is not a valid one — accessing the derived property raises, and so does building it anew
        det.characteristics.charge_to_volt_conversion  # noqa: B018
    if d.get("emptied"):
        det.empty()
    rows, cols = d["rows"], d["cols"]
    c = d["containers"]
    if c.get("photon"):
        if c["photon"]["kind"] == "2d":
            det.photon.array = np.abs(arr_from(c["photon"], rows, cols))
        else:
            wl = c["photon"]["wavelengths"]
            cube = np.stack([np.abs(arr_from({**c["photon"], "offset": c["photon"].get("offset", 0.0) + k}, rows, cols)) for k in range(len(wl))])
            coords = {"wavelength": [float(w) for w in wl]}
            attrs = {}
            extra = c["photon"].get("extra", [])
            if "yx" in extra:  # pixel positions along y and x
                coords["y"] = [2.5 * i for i in range(rows)]
                coords["x"] = [10 + i for i in range(cols)]
            if "scalar" in extra:  # a scalar coordinate
                coords["exposure_id"] = 7
            if "aux" in extra:  # a non-index coordinate along a dimension
                coords["band"] = ("wavelength", [f"b{k}" for k in range(len(wl))])
            if "attrs" in extra:
                attrs = {"units": "ph/nm", "long_name": "Photon"}
            det.photon.array_3d = xr.DataArray(cube, dims=["wavelength", "y", "x"], coords=coords, attrs=attrs,
                                               name="photon" if "name" in extra else None)
    if c.get("pixel"):
        det.pixel.array = arr_from(c["pixel"], rows, cols)
    if c.get("signal"):
        det.signal.array = arr_from(c["signal"], rows, cols)
    if c.get("image"):
        det.image.array = np.abs(arr_from({**c["image"], "dtype": "float64"}, rows, cols)).astype(c["image"]["dtype"])
    if c.get("phase") and d["type"] == "MKID":
        det.phase.array = arr_from(c["phase"], rows, cols)
    if c.get("charge"):
        if c["charge"].get("array"):
            det.charge.add_charge_array(np.abs(arr_from(c["charge"]["array"], rows, cols)))
        parts = c["charge"].get("particles") or []
        if parts:
            n = len(parts)
            z = np.zeros(n)
            det.charge.add_charge(
                particle_type="e", particles_per_cluster=np.array([p[0] for p in parts], dtype=float),
                init_energy=np.array([p[1] for p in parts], dtype=float),
                init_ver_position=np.array([p[2] for p in parts], dtype=float),
                init_hor_position=np.array([p[3] for p in parts], dtype=float),
                init_z_position=z, init_ver_velocity=z, init_hor_velocity=z, init_z_velocity=z)
            if c["charge"].get("remove_first") and n >= 2:
                # leaves a cluster table whose row labels do not start at 0 (labels are handles, not data)
                det.charge.remove_from_frame([int(det.charge.frame.index[0])])
    for k in range(c.get("scene") or 0):
        nref = 2 + k
        src = xr.Dataset(
            {"x": xr.DataArray([10.5 * (i + 1) + k for i in range(nref)], dims="ref"),
             "y": xr.DataArray([-3.25 * (i + 1) for i in range(nref)], dims="ref"),
             "weight": xr.DataArray([14.0 + i for i in range(nref)], dims="ref"),
             "flux": xr.DataArray([[0.1 * (i + 1) + 0.01 * w for w in range(3)] for i in range(nref)], dims=["ref", "wavelength"])},
            coords={"ref": list(range(nref)), "wavelength": [336.0, 338.0, 1018.0]})
        if c.get("scene_attrs", True):
            # `add_source` does not constrain the attributes of a source: numbers, booleans, lists and text
            src.attrs = {"right_ascension": 56.75 + k, "declination": -24.5, "fov_radius": 0.5, "n_stars": 3 + k,
                         "checked": True, "bands": [1, 2], "label": f"source {k}"}
        det.scene.add_source(src)
    for node in c.get("data") or []:
        kind = node.get("kind", "array")
        dim = node.get("dim", "k")  # one dimension name per group: sibling groups need not be aligned
        if kind == "coords_only":  # a group that holds only coordinates (axes prepared for a later step)
            det.data[node["path"]] = xr.DataTree(xr.Dataset(coords={dim: [float(v) for v in node["values"]]}))
            continue
        if kind == "empty_leaf":  # a placeholder group
            det.data[node["path"]] = xr.DataTree()
            continue
        if kind == "attrs_only":
            det.data[node["path"]] = xr.DataTree(xr.Dataset(attrs={"note": "made by " + node["path"], "n": 3}))
            continue
        if kind == "inherit":  # a parent whose coordinate is inherited by its child
            vals = [float(v) for v in node["values"]]
            det.data[node["path"]] = xr.DataTree(xr.Dataset(coords={"t" + dim: [0.5 * i for i in range(len(vals))]}))
            det.data[node["path"] + "/child"] = xr.DataTree(xr.Dataset({"v": ("t" + dim, vals)}))
            continue
        vals = np.array(node["values"], dtype=float)
        if vals.ndim == 1:
            det.data[node["path"]] = xr.DataArray(vals, dims=dim, coords={dim: list(range(len(vals)))})
        else:
            det.data[node["path"]] = xr.DataArray(vals, dims=["p" + dim, "q" + dim])
    return det, applied


# ------------------------------------------------------------------ implementation side
def impl_roundtrip(case, tmp):
    from pyxel.detectors import Detector

    try:
        det, applied = build_detector(case["det"])
    except Exception as e:  # noqa: BLE001
        return {"build_error": common.err_kind(e), "msg": str(e)[:200]}
    s0 = snapshot(det)
    path = os.path.join(tmp, f"rt_{case['id']}.asdf")
    try:
        det.save(path)
        det2 = Detector.load(path)
    except Exception as e:  # noqa: BLE001
        return {"before": s0, "err": common.err_kind(e), "msg": str(e)[:200], "applied": applied}
    return {"before": s0, "after": snapshot(det2), "applied": applied}


def statement_roundtrip(case, impl):
    if "build_error" in impl:
        return None  # the generated description is not a valid detector: nothing to claim
    if "err" in impl:
        return f"saving / loading a valid {case['det']['type']} detector failed: {impl['err']} {impl['msg'][:120]}"
    a, b = impl["before"], impl["after"]
    if a["type"] != b["type"] or a["shape"] != b["shape"]:
        return f"type/shape changed: {a['type']}{a['shape']} -> {b['type']}{b['shape']}"
    for k in sorted(a["props"]):
        d = first_difference(a["props"][k], b["props"].get(k), k)
        if d:
            return f"property {d}"
    for k in sorted(a["containers"]):
        d = first_difference(a["containers"][k], b["containers"].get(k), k)
        if d:
            if b["containers"].get(k) is None:
                return f"container '{k}' was initialised and comes back uninitialised"
            return f"container {d}"
    return None


def field_of(why):
    for marker in ("property ", "container '", "container "):
        if why.startswith(marker):
            rest = why[len(marker):]
            return rest.split(":")[0].split("'")[0].split("[")[0].split(".array")[0].strip(". ")
    return "other"


def file_detector_desc(rng, kind, rows, cols, keep=None):
    """a stored detector whose 2-D containers `keep` are initialised (default: a random subset, all of them half of
    the time) — what the load model is asked to bring in; the others are uninitialised in the file"""
    c = {"photon": {"kind": "2d", "offset": float(rng.randrange(1, 50)), "slope": 1.0},
         "pixel": {"offset": float(rng.randrange(100, 150))}, "signal": {"offset": float(rng.randrange(200, 250)) / 4},
         "image": {"dtype": rng.choice(["uint16", "uint32"]), "offset": float(rng.randrange(300, 350))},
         "charge": {"array": {"offset": float(rng.randrange(400, 450))}}}
    if kind == "MKID":
        c["phase"] = {"offset": float(rng.randrange(500, 550))}
    if keep is None:
        keep = list(c) if rng.random() < 0.5 else [k for k in c if rng.random() < 0.5]
    c = {k: v for k, v in c.items() if k in keep}
    if rng.random() < 0.5:
        c["data"] = gen_data_nodes(rng)
    return {"type": kind, "rows": rows, "cols": cols, "geometry": {}, "environment": {}, "characteristics": {}, "containers": c}


KEYS2D = ["photon", "pixel", "signal", "image", "charge", "phase"]
TIMES = [1.0, 2.0, 3.0]  # every time step is 1 s, so probes.fill writes exactly `level`


def file_arrays(fdet):
    """the stored detector's 2-D containers as arrays (None = uninitialised / nothing added)"""
    import numpy as np

    out = {}
    from probes import container, held_array

    for k in ("photon", "pixel", "signal", "image", "phase"):
        if k == "phase" and not hasattr(type(fdet), "phase"):
            continue
        cont = container(fdet, k)
        arr = None if cont is None else held_array(cont)
        out[k] = None if arr is None else np.array(arr, copy=True)
    ch = np.array(fdet.charge.array, copy=True)
    out["charge"] = ch if np.any(ch) else None
    return out


def norm_store(store):
    """canonical comparison form of a set of 2-D containers"""
    import numpy as np

    out = {}
    for k, v in store.items():
        if v is None or (k == "charge" and not np.any(v)):
            out[k] = None
        else:
            out[k] = canon(np.asarray(v))
    return out


def save_file_detector(case, tmp):
    fdet, _ = build_detector(case["file"])
    path = os.path.join(tmp, f"pl_{case['stream']}_{case['id']}.asdf")
    if os.path.exists(path):
        os.remove(path)
    fdet.save(path)
    return fdet, path


def impl_pipeline(case, tmp):
    """real exposures (1-3 readouts, 1-2 runs in one process) whose pipeline contains `load_detector`"""
    import numpy as np
    import probes
    import pyx

    fdet, path = save_file_detector(case, tmp)
    groups: dict = {}
    for g, kind, arg in case["models"]:
        lst = groups.setdefault(g, [])
        n = len(lst)
        if kind == "fill":
            lst.append({"name": f"fill{n}_{g[:4]}", "func": "probes.fill", "arguments": {"level": float(arg[1]), "bucket": arg[0]}})
        elif kind == "fillall":
            lst.append({"name": f"fillall{n}_{g[:4]}", "func": "probes.c19_fill", "arguments": {"a": float(arg[0]), "b": float(arg[1])}})
        elif kind == "load":
            lst.append({"name": f"load{n}", "func": "pyxel.models.load_detector", "arguments": {"filename": path}})
        elif kind == "snap":
            lst.append({"name": f"snap{n}_{g[:4]}", "func": "probes.c18_snapshot", "arguments": {"tag": arg}})
    nread = case.get("readouts", 1)
    probes.reset()
    finals = []
    det = None
    try:
        for run in range(case.get("runs", 1)):
            if det is None or case.get("fresh", True):
                det = pyx.make_detector(case["type"], case["rows"], case["cols"])
            res = pyx.run(pyx.make_exposure(times=TIMES[:nread], non_destructive=case.get("nd", False)), det,
                          pyx.make_pipeline({g: groups[g] for g in GROUPS if g in groups}))
            for i in range(nread):
                fin = {}
                for b in ("photon", "pixel", "signal", "image", "charge"):
                    v = res[b].values
                    fin[b] = None if v.ndim < 3 else np.asarray(v[i])
                finals.append(norm_store(fin))
    except Exception as e:  # noqa: BLE001
        return {"err": "TypeError" if isinstance(e, TypeError) else common.err_kind(e), "msg": str(e)[:200],
                "snaps": [[r[1], norm_store(r[2])] for r in probes.LOG if r[0] == "c18"], "files": file_arrays(fdet)}
    return {"snaps": [[r[1], norm_store(r[2])] for r in probes.LOG if r[0] == "c18"], "finals": finals, "files": file_arrays(fdet)}


def impl_direct(case, tmp):
    """`load_detector` called several times on one detector object, with in-place changes in between"""
    import probes
    import pyx
    from pyxel.models import load_detector

    fdet, path = save_file_detector(case, tmp)
    det = pyx.make_detector(case["type"], case["rows"], case["cols"])
    probes.reset()
    data_after = []
    want_data = data_tree_canon(fdet)
    try:
        for op in case["ops"]:
            if op[0] == "load":
                load_detector(det, path)
                data_after.append(data_tree_canon(det))
            elif op[0] == "snap":
                probes.c18_snapshot(det, op[1])
            elif op[0] == "iadd":
                cont = getattr(det, op[1])
                cont.array += float(op[2])
            elif op[0] == "imul":
                cont = getattr(det, op[1])
                cont.array *= float(op[2])
            elif op[0] == "empty":
                det.empty(bool(op[1]))
            elif op[0] == "fillall":
                probes.c19_fill(det, a=float(op[1]), b=float(op[2]))
            elif op[0] == "setphase":
                import numpy as np

                det.phase.array = np.full((case["rows"], case["cols"]), float(op[1]))
    except Exception as e:  # noqa: BLE001
        return {"err": "TypeError" if isinstance(e, TypeError) else common.err_kind(e), "msg": str(e)[:200],
                "snaps": [[r[1], norm_store(r[2])] for r in probes.LOG if r[0] == "c18"], "files": file_arrays(fdet)}
    return {"snaps": [[r[1], norm_store(r[2])] for r in probes.LOG if r[0] == "c18"], "finals": [], "files": file_arrays(fdet),
            "data_after": data_after, "data_file": want_data}


def simulate(case, files):
    """the statement, executed: every execution of the load model puts the FILE's containers into the running
    detector; models and the emptying before each readout change only what they write.  Returns the expected
    snapshots, the expected state after every load, the expected result of every readout, and the same history as
    a flat list of steps for the Lean model."""
    import numpy as np

    rows, cols = case["rows"], case["cols"]
    keys = [k for k in KEYS2D if k in files]
    store = {k: None for k in keys}
    steps, snaps, loads, finals = [], [], [], []
    mismatch = None
    if case["file"]["type"] != case["type"]:
        mismatch = "TypeError"
    elif [case["file"]["rows"], case["file"]["cols"]] != [rows, cols]:
        mismatch = "ValueError"

    def write(k, v):
        if k not in store:
            return
        store[k] = v
        steps.append(["write", k, token(norm_store({k: v})[k])])

    def empty(reset):
        for k in ("photon", "charge", "signal", "image"):
            write(k, None)
        if reset:
            write("pixel", np.zeros((rows, cols)))
            if store.get("phase") is not None:
                write("phase", np.zeros((rows, cols)))

    def fillall(a, b):
        idx = np.arange(rows * cols, dtype=float).reshape(rows, cols)
        off = 16.0 * float(a) + float(b)
        write("photon", 1000.0 + off + idx / 64.0)
        prev = store.get("charge")
        write("charge", (0.0 if prev is None else prev) + 2000.0 + off + idx / 64.0)
        write("pixel", 3000.0 + off + idx / 64.0)
        write("signal", 4000.0 + off + idx / 64.0)
        write("image", np.asarray(5000.0 + off + idx, dtype=np.uint16))

    def load():
        nonlocal store
        steps.append(["load", case["file"]["type"], [case["file"]["rows"], case["file"]["cols"]],
                      {k: token(norm_store({k: files[k]})[k]) for k in keys}])
        if mismatch:
            return mismatch
        store = {k: (None if files[k] is None else np.array(files[k], copy=True)) for k in keys}
        loads.append(norm_store(store))
        return None

    if case["stream"] == "direct":
        for op in case["ops"]:
            if op[0] == "load":
                err = load()
                if err:
                    return {"err": err, "steps": steps, "snaps": snaps, "loads": loads, "finals": finals}
            elif op[0] == "snap":
                snaps.append([op[1], norm_store(store)])
            elif op[0] == "iadd":
                write(op[1], store[op[1]] + float(op[2]))
            elif op[0] == "imul":
                write(op[1], store[op[1]] * float(op[2]))
            elif op[0] == "empty":
                empty(bool(op[1]))
            elif op[0] == "fillall":
                fillall(op[1], op[2])
            elif op[0] == "setphase":
                write("phase", np.full((rows, cols), float(op[1])))
        return {"steps": steps, "snaps": snaps, "loads": loads, "finals": finals}

    for run in range(case.get("runs", 1)):
        if run == 0 or case.get("fresh", True):
            store = {k: None for k in keys}
        empty(True)  # `detector.empty()` when the exposure starts
        for _ in range(case.get("readouts", 1)):
            empty(not case.get("nd", False))
            for g in GROUPS:
                for gg, kind, arg in case["models"]:
                    if gg != g:
                        continue
                    if kind == "fill":
                        write(arg[0], np.full((rows, cols), float(arg[1])))
                    elif kind == "fillall":
                        fillall(arg[0], arg[1])
                    elif kind == "load":
                        err = load()
                        if err:
                            return {"err": err, "steps": steps, "snaps": snaps, "loads": loads, "finals": finals}
                    elif kind == "snap":
                        snaps.append([arg, norm_store(store)])
            finals.append(norm_store({k: v for k, v in store.items() if k != "phase"}))
    return {"steps": steps, "snaps": snaps, "loads": loads, "finals": finals}


def describe(k, want, got):
    return ("uninitialised" if got is None else "with other content") + (
        " although the file holds data for it" if want is not None else " although the file has none")


def statement_pipeline(case, impl):
    """every execution of the load model is judged against the file's content"""
    exp = simulate(case, impl["files"])
    if "err" in exp:
        return None  # a stored detector of another type / shape: outside the statement (compared with the model only)
    for k, got in enumerate(impl.get("data_after", [])):
        d = first_difference(impl["data_file"], got, "data")
        if d:
            return f"execution {k + 1} of load_detector: the processed-data tree of the running detector is not the stored one: {d}"
    nload = 0
    for n, (tag, want) in enumerate(exp["snaps"]):
        if tag == "after":
            nload += 1
        if n >= len(impl["snaps"]):
            break
        got_tag, got = impl["snaps"][n]
        if got_tag != tag:
            return f"probe order differs: expected '{tag}', got '{got_tag}'"
        for k in sorted(want):
            if want[k] != got.get(k):
                if tag == "after":
                    return (f"execution {nload} of load_detector in this process: the model placed after it sees container "
                            f"'{k}' {describe(k, want[k], got.get(k))}")
                return f"model placed before load_detector (probe {n}) sees container '{k}' {describe(k, want[k], got.get(k))}"
    if "err" in impl:
        return f"pipeline with load_detector failed at execution {nload + 1 if len(impl['snaps']) < len(exp['snaps']) else nload}: {impl['err']} {impl['msg'][:120]}"
    if len(impl["snaps"]) != len(exp["snaps"]):
        return f"{len(impl['snaps'])} probe calls, {len(exp['snaps'])} expected"
    for n, want in enumerate(exp["finals"]):
        got = impl["finals"][n] if n < len(impl["finals"]) else {}
        for k in sorted(want):
            if want[k] != got.get(k):
                return f"the result of readout {n}: '{k}' is not the loaded state (as modified by later models)"
    return None


# ------------------------------------------------------------------ Lean requests
def req_roundtrip(case, impl):
    s0 = impl["before"]
    return {"op": "roundtrip", "ty": s0["type"], "shape": s0["shape"],
            "props": {k: token(v) for k, v in s0["props"].items()},
            "store": {k: token(v) for k, v in s0["containers"].items()}}


def req_pipeline(case, files):
    sim = simulate(case, files)
    return {"op": "pipeline", "ty": case["type"], "shape": [case["rows"], case["cols"]], "init": {}, "steps": sim["steps"]}


# ------------------------------------------------------------------ generators
FLOAT_DTYPES = ["float64", "float64", "float32", "float16"]  # every dtype the float containers accept


def gen_arr(rng, dtype="float64"):
    d = {"offset": float(rng.randrange(0, 1000)) / rng.choice([1, 2, 8]), "slope": rng.choice([1.0, 0.5, 3.0, 0.0])}
    if dtype == "float64" and rng.random() < 0.4:
        d["pokes"] = [[rng.randrange(9), rng.randrange(9), rng.choice([0.0, 1e-300, 12345.678, 1e12, 0.1])] for _ in range(rng.randrange(1, 3))]
    if dtype != "float64":
        d["dtype"] = dtype
    return d


def gen_data_nodes(rng):
    """processed-data groups: arrays, and groups WITHOUT data variable (coordinates only, attributes only, empty leaf,
    parent whose coordinate its child inherits)"""
    nodes = []
    for i in range(rng.randrange(1, 4)):
        kind = rng.choice(["array", "array", "coords_only", "empty_leaf", "attrs_only", "inherit"])
        path = rng.choice(["/foo/bar", "/baz", "/a/b/c"]) + str(i)
        if kind == "array":
            vals = ([float(rng.randrange(100)) / 8 for _ in range(rng.randrange(1, 4))] if rng.random() < 0.6
                    else [[1.0, 0.5], [0.25, float(rng.randrange(9))]])
            nodes.append({"path": path, "dim": f"k{i}", "values": vals})
        elif kind in ("coords_only", "inherit"):
            nodes.append({"path": path, "kind": kind, "dim": f"k{i}", "values": [float(rng.randrange(50)) / 4 + j for j in range(rng.randrange(1, 4))]})
        else:
            nodes.append({"path": path, "kind": kind})
    return nodes


def gen_apd_setter_cases():
    """directed: an APD built from each pair of inputs, then 1-2 voltage / gain setters, then the round trip.
    The new avalanche bias (pixel reset voltage - common voltage) covers the unity-gain range 1-2.65 V, its edges and
    values above it."""
    cases = []
    biases = [1.0, 1.5, 2.0, 2.6, 2.65, 2.7, 3.3, 4.7, 7.3, 10.1]
    n = 0
    for pair in ("gp", "gc", "pc"):
        base = {"roic_gain": 0.8, "quantum_efficiency": 0.9, "full_well_capacity": 100000, "adc_bit_resolution": 16,
                "adc_voltage_range": [0.0, 10.0],
                "avalanche_gain": 2.0 if "g" in pair else None, "pixel_reset_voltage": 5.0 if "p" in pair else None,
                "common_voltage": 1.0 if "c" in pair else None}
        for k, b in enumerate(biases):
            for which in ("common_voltage", "pixel_reset_voltage"):
                if which == "common_voltage":   # new bias = pixel_reset_voltage - value
                    setters = [["characteristics", "common_voltage", {"rel": "pixel_reset_voltage", "plus": -b}]]
                else:                             # new bias = value - common_voltage
                    setters = [["characteristics", "pixel_reset_voltage", {"rel": "common_voltage", "plus": b}]]
                if k % 3 == 1:
                    setters.append(["characteristics", "avalanche_gain", [1.5, 4.0, 30.0][k % 3]])
                if k % 3 == 2:
                    setters.insert(0, ["characteristics", "avalanche_gain", 12.5])
                cases.append({"stream": "roundtrip-apd-setters", "id": f"apd{n}",
                              "det": {"type": "APD", "rows": 2, "cols": 3, "geometry": {}, "environment": {"temperature": 100.0},
                                      "characteristics": base, "setters": setters, "emptied": False, "containers": {}}})
                n += 1
    return cases


def gen_detector(rng, kind=None):
    kind = kind or rng.choice(TYPES)
    rows, cols = rng.choice([2, 3, 4]), rng.choice([2, 3, 5])
    opt = lambda v: None if rng.random() < 0.25 else v  # noqa: E731
    # every optional numeric property also takes its documented minimum / maximum (0.0 and other false-y values included)
    geometry = {"total_thickness": opt(rng.choice([10.0, 40.0, 123.5, 0.0, 10000.0])), "pixel_vert_size": rng.choice([10.0, 12.5, 18.0, 1000.0]),
                "pixel_horz_size": rng.choice([10.0, 15.0, 1000.0]), "pixel_scale": opt(rng.choice([0.01, 0.25, 1.5, 0.0, 1000.0]))}
    wl = rng.choice([None, None, 600.0, 1234.5, 5e-324, {"cut_on": 400.0, "cut_off": 900.0, "resolution": 50},
                     {"cut_on": 5e-324, "cut_off": 1.0, "resolution": 1}])
    environment = {"temperature": opt(rng.choice([77.0, 150.5, 300.0, 1000.0, 5e-324])), "wavelength": wl}
    if kind == "APD":
        pair = rng.choice(["gp", "gc", "pc"])
        ch = {"roic_gain": rng.choice([0.5, 0.8, 1.0, 0.0]), "quantum_efficiency": opt(rng.choice([0.5, 0.9, 1.0, 0.0])),
              "full_well_capacity": opt(rng.choice([1000, 100000, 0, 10000000])), "adc_bit_resolution": opt(rng.choice([8, 12, 16, 4, 64])),
              "adc_voltage_range": opt(rng.choice([[0.0, 5.0], [0.0, 10.0], [0.0, 0.0], [-5.0, 0.0]])),
              "avalanche_gain": rng.choice([1.5, 2.0, 10.0, 50.0, 1.0, 1000.0]) if "g" in pair else None,
              "pixel_reset_voltage": rng.choice([3.0, 5.0, 12.0]) if "p" in pair else None,
              "common_voltage": rng.choice([0.5, 1.0, 2.5]) if "c" in pair else None}
        setter_pool = [("characteristics", "avalanche_gain", rng.choice([1.5, 3.0, 7.0, 20.0])),
                       ("characteristics", "pixel_reset_voltage", rng.choice([4.0, 6.5, 9.0])),
                       ("characteristics", "common_voltage", rng.choice([0.25, 1.5, 3.0])),
                       ("characteristics", "quantum_efficiency", rng.choice([0.25, 0.75])),
                       ("characteristics", "adc_bit_resolution", rng.choice([10, 14]))]
    else:
        ch = {"quantum_efficiency": opt(rng.choice([0.5, 0.9, 1.0, 0.0])),
              "charge_to_volt_conversion": opt(rng.choice([1e-6, 3.5e-6, 0.0, 100.0])),
              "pre_amplification": opt(rng.choice([1.0, 100.0, 0.0, 10000.0])), "full_well_capacity": opt(rng.choice([1000, 100000, 0, 10000000])),
              "adc_bit_resolution": opt(rng.choice([8, 12, 16, 4, 64])),
              "adc_voltage_range": opt(rng.choice([[0.0, 5.0], [0.0, 10.0], [0.0, 0.0], [-5.0, 0.0]]))}
        setter_pool = [("characteristics", "quantum_efficiency", rng.choice([0.25, 0.75])),
                       ("characteristics", "adc_bit_resolution", rng.choice([10, 14])),
                       ("characteristics", "pre_amplification", rng.choice([2.0, 50.0])),
                       ("characteristics", "full_well_capacity", rng.choice([5000, 20000]))]
    setter_pool += [("environment", "temperature", rng.choice([99.0, 222.0])), ("geometry", "pixel_vert_size", rng.choice([11.0, 20.0])),
                    ("geometry", "total_thickness", rng.choice([15.0, 50.0]))]
    # every legal representation of a value: ints for floats, numpy scalars, pairs as tuple / list, high-to-low pairs
    reps = [("environment", "wavelength", rng.choice([600, 1234, {"np": "float64", "v": 650.5}, {"np": "int64", "v": 700}, 812.25])),
            ("environment", "temperature", rng.choice([150, {"np": "float32", "v": 100.5}, {"np": "int32", "v": 80}])),
            ("geometry", "pixel_vert_size", rng.choice([12, {"np": "float64", "v": 13.5}])),
            ("geometry", "pixel_scale", rng.choice([1, {"np": "float32", "v": 0.5}])),
            ("characteristics", "quantum_efficiency", rng.choice([1, 0, {"np": "float64", "v": 0.5}])),
            ("characteristics", "adc_bit_resolution", rng.choice([{"np": "int64", "v": 12}, {"np": "uint8", "v": 10}])),
            ("characteristics", "full_well_capacity", rng.choice([{"np": "int32", "v": 5000}, 7000.0])),
            ("characteristics", "adc_voltage_range", rng.choice([{"tuple": [6.0, 1.0]}, [6, 1], [10.0, 0.0], {"tuple": [0, 5]},
                                                                   {"tuple": [{"np": "float64", "v": 0.0}, {"np": "float64", "v": 5.0}]},
                                                                   [-1.5, -3.0], {"tuple": [2.5, 2.5]}]))]
    if kind != "APD":
        reps.append(("characteristics", "pre_amplification", rng.choice([7, {"np": "float32", "v": 2.5}])))
    else:
        reps.append(("characteristics", "avalanche_gain", rng.choice([2, {"np": "float64", "v": 5.0}])))
    setters = [list(s) for s in rng.sample(setter_pool, rng.choice([0, 0, 1, 2]))]
    for rep in rng.sample(reps, rng.choice([0, 1, 2, 3])):
        setters.append(list(rep) + (["processor"] if rng.random() < 0.3 else []))
    if ch.get("adc_voltage_range") is not None and rng.random() < 0.3:
        ch["adc_voltage_range"] = rng.choice([[6.0, 1.0], [10.0, 0.0], [0.0, -5.0]])  # a high-to-low range is legal
    c: dict = {}
    p = 0.5
    if rng.random() < p:
        c["photon"] = ({"kind": "2d", **gen_arr(rng, rng.choice(FLOAT_DTYPES))} if rng.random() < 0.6 else
                       {"kind": "3d", "wavelengths": rng.sample([400.0, 500.0, 650.0, 900.0], rng.choice([1, 2, 3])),
                        "extra": [x for x in ("yx", "scalar", "aux", "attrs", "name") if rng.random() < 0.4],
                        **gen_arr(rng, rng.choice(FLOAT_DTYPES))})
    if rng.random() < p:
        c["pixel"] = gen_arr(rng, rng.choice(FLOAT_DTYPES))
    if rng.random() < p:
        c["signal"] = gen_arr(rng, rng.choice(FLOAT_DTYPES))
    if rng.random() < p:
        c["image"] = {**gen_arr(rng), "dtype": rng.choice(["uint8", "uint16", "uint32", "uint64"])}
    if rng.random() < p:
        c["phase"] = gen_arr(rng, rng.choice(FLOAT_DTYPES))
    if rng.random() < p:
        ch_desc: dict = {}
        if rng.random() < 0.6:
            ch_desc["array"] = gen_arr(rng)
        if rng.random() < 0.6 or not ch_desc:
            ch_desc["particles"] = [[float(rng.randrange(1, 500)), float(rng.randrange(1, 9)),
                                     rng.uniform(0, rows * geometry["pixel_vert_size"] * 0.999),
                                     rng.uniform(0, cols * geometry["pixel_horz_size"] * 0.999)] for _ in range(rng.randrange(1, 4))]
            ch_desc["remove_first"] = rng.random() < 0.3
        c["charge"] = ch_desc
    if "charge" not in c and rng.random() < 0.3:
        geometry[rng.choice(["pixel_vert_size", "pixel_horz_size"])] = rng.choice([0.0, None])
    if rng.random() < 0.4:
        c["scene"] = rng.choice([1, 2])
        c["scene_attrs"] = rng.random() < 0.7
    if rng.random() < 0.4:
        c["data"] = gen_data_nodes(rng)
    return {"type": kind, "rows": rows, "cols": cols, "geometry": geometry, "environment": environment, "characteristics": ch,
            "setters": setters, "emptied": rng.random() < 0.4, "containers": c}


def gen_roundtrips(rng, n):
    cases = []
    for i in range(n):
        cases.append({"stream": "roundtrip", "id": i, "det": gen_detector(rng, TYPES[i % 4] if i < 8 * 4 else None)})
    # every subset of the 2-D containers for one small MKID (the type with the most containers)
    names = ["photon", "pixel", "signal", "image", "phase", "charge"]
    for mask in range(1 << len(names)):
        d = gen_detector(rng, "MKID")
        d["setters"], d["emptied"] = [], False
        d["containers"] = {}
        for b, nm in enumerate(names):
            if mask >> b & 1:
                d["containers"][nm] = ({"kind": "2d", **gen_arr(rng)} if nm == "photon" else
                                       {"array": gen_arr(rng)} if nm == "charge" else
                                       {**gen_arr(rng), "dtype": "uint16"} if nm == "image" else gen_arr(rng))
        cases.append({"stream": "roundtrip-subsets", "id": f"s{mask}", "det": d})
    n = 0
    for dt in ("float16", "float32", "float64"):
        for kind in ("2d", "3d"):
            for ty in TYPES:
                d = gen_detector(rng, ty)
                d["setters"], d["emptied"] = [], False
                ph = {"kind": kind, "offset": 3.0, "slope": 0.5, "dtype": dt}
                if kind == "3d":
                    ph.update({"wavelengths": [400.0, 650.0], "extra": []})
                d["containers"] = {"photon": ph, "pixel": {"offset": 10.0, "slope": 1.0, "dtype": dt},
                                   "signal": {"offset": 20.0, "slope": 0.25, "dtype": dt},
                                   "image": {"offset": 30.0, "slope": 1.0, "dtype": ["uint8", "uint16", "uint32", "uint64"][n % 4]}}
                if ty == "MKID":
                    d["containers"]["phase"] = {"offset": 40.0, "slope": 1.0, "dtype": dt}
                cases.append({"stream": "roundtrip-dtypes", "id": f"dt{n}", "det": d})
                n += 1
    return cases + gen_apd_setter_cases()


def gen_pipelines(rng, n):
    cases = []
    for i in range(n):
        kind = TYPES[i % 4]
        rows, cols = rng.choice([2, 3]), rng.choice([3, 4])
        at = rng.randrange(len(GROUPS))
        models = []
        for _ in range(rng.choice([0, 1, 2, 3])):
            g = rng.randrange(0, at + 1)
            models.append([GROUPS[g], "fill", [rng.choice(["photon", "pixel", "signal"]), rng.randrange(1, 90)]])
        if rng.random() < 0.6:
            # the running detector already holds data in every container when the load model executes
            models.insert(0, [GROUPS[rng.randrange(0, at + 1)], "fillall", [rng.randrange(0, 4), rng.randrange(0, 8)]])
        pre_same = [m for m in models if m[0] == GROUPS[at]]
        models = [m for m in models if m[0] != GROUPS[at]] + pre_same
        if rng.random() < 0.6:
            models.append([GROUPS[at], "snap", "before"])
        models.append([GROUPS[at], "load", None])
        g_after = rng.randrange(at, len(GROUPS))
        models.append([GROUPS[g_after], "snap", "after"])
        for _ in range(rng.choice([0, 1, 1, 2])):
            g = rng.randrange(g_after, len(GROUPS))
            models.append([GROUPS[g], "fill", [rng.choice(["photon", "pixel", "signal"]), rng.randrange(100, 190)]])
        fkind, frows, fcols = kind, rows, cols
        r = rng.random()
        if r < 0.08:
            fkind = rng.choice([t for t in TYPES if t != kind])
        elif r < 0.16:
            frows = rows + 1
        # the load model executes several times on one file in one process: several readouts and / or two runs
        shape = i % 4
        readouts, runs = [(1, 1), (rng.choice([2, 3]), 1), (1, 2), (rng.choice([2, 3]), 2)][shape]
        cases.append({"stream": "pipeline", "id": i, "type": kind, "rows": rows, "cols": cols, "at": GROUPS[at], "models": models,
                      "readouts": readouts, "nd": rng.random() < 0.5, "runs": runs, "fresh": rng.random() < 0.5,
                      "file": file_detector_desc(rng, fkind, frows, fcols)})
    return cases


def gen_direct(rng, n):
    """direct calls of the model function on one detector object, with in-place changes in between; the first cases
    enumerate every subset of containers initialised in the file, loaded into a detector that holds data everywhere"""
    cases = []
    names = ["photon", "pixel", "signal", "image", "charge"]
    for mask in range(64):
        kind = "MKID" if mask >= 32 or mask % 4 == 3 else TYPES[mask % 4]
        keep = [nm for b, nm in enumerate(names) if mask >> b & 1]
        if kind == "MKID" and (mask >> 5 & 1 or (mask < 32 and mask % 8 == 3)):
            keep.append("phase")
        rows, cols = rng.choice([2, 3]), rng.choice([3, 4])
        ops = [["fillall", rng.randrange(0, 4), rng.randrange(0, 8)]]
        if kind == "MKID":
            ops.append(["setphase", float(rng.randrange(600, 650))])
        ops += [["snap", "before"], ["load"], ["snap", "after"]]
        cases.append({"stream": "direct", "id": f"subset{mask}", "type": kind, "rows": rows, "cols": cols, "ops": ops,
                      "file": file_detector_desc(rng, kind, rows, cols, keep=keep)})
    for i in range(n):
        kind = TYPES[i % 4]
        rows, cols = rng.choice([2, 3]), rng.choice([3, 4])
        fdesc = file_detector_desc(rng, kind, rows, cols)
        ops = []
        if rng.random() < 0.6:
            ops.append(["fillall", rng.randrange(0, 4), rng.randrange(0, 8)])
            if kind == "MKID":
                ops.append(["setphase", float(rng.randrange(600, 650))])
        for k in range(rng.choice([2, 3, 4])):
            ops.append(["load"])
            ops.append(["snap", "after"])
            mods = [b for b in ["pixel", "signal", "photon"] + (["phase"] if kind == "MKID" else []) if b in fdesc["containers"]]
            for _ in range(rng.choice([1, 2, 3]) if mods else 0):
                b = rng.choice(mods)
                ops.append(["imul", b, rng.choice([2.0, 0.5, 3.0])] if rng.random() < 0.5 else ["iadd", b, float(rng.randrange(1, 50))])
            r = rng.random()
            if r < 0.35:
                ops.append(["empty", rng.random() < 0.5])
                ops.append(["snap", "emptied"])
            elif r < 0.6:
                ops.append(["fillall", rng.randrange(0, 4), rng.randrange(0, 8)])
        cases.append({"stream": "direct", "id": i, "type": kind, "rows": rows, "cols": cols, "ops": ops, "file": fdesc})
    return cases


# ------------------------------------------------------------------ evaluation
def evaluate(case, tmp):
    if case["stream"].startswith("roundtrip"):
        impl = impl_roundtrip(case, tmp)
        return impl, statement_roundtrip(case, impl)
    impl = impl_direct(case, tmp) if case["stream"] == "direct" else impl_pipeline(case, tmp)
    return impl, statement_pipeline(case, impl)


def slim(impl):
    """keep replays small: snapshots are recomputed by --replay"""
    if "before" in impl:
        return {k: v for k, v in impl.items() if k not in ("before", "after")}
    return {k: (v if k != "snaps" else [t for t, _ in v]) for k, v in impl.items() if k in ("err", "msg", "snaps")}


def body(ck: common.Check):
    import extract

    extract.generate("C18")
    ck.obligations(["PyxelModel.Props.C18"], ["PyxelModel.Drive.C18"])
    rng = ck.rng
    quick = ck.tier == "quick"
    cases = (gen_roundtrips(rng, 160 if quick else 2500) + gen_pipelines(rng, 48 if quick else 500)
             + gen_direct(rng, 24 if quick else 300))

    tmp = tempfile.mkdtemp(prefix="verif-c18-")
    try:
        results, reqs, idx = [], [], []
        for n, case in enumerate(cases):
            impl, why = evaluate(case, tmp)
            results.append((impl, why))
            if case["stream"].startswith("roundtrip"):
                if "before" in impl:
                    reqs.append(req_roundtrip(case, impl))
                    idx.append(n)
            else:
                reqs.append(req_pipeline(case, impl["files"]))
                idx.append(n)
        answers = dict(zip(idx, LeanDriver("C18").batch(reqs)))
        for n, (case, (impl, why)) in enumerate(zip(cases, results)):
            s = case["stream"]
            ans = answers.get(n)
            if ans is not None and "bad" in ans:
                raise common.InfraError(f"driver rejected request: {ans}")
            if s.startswith("roundtrip"):
                d = case["det"]
                ninit = sum(1 for v in (impl.get("before") or {}).get("containers", {}).values() if v is not None)
                ck.case(case, nontrivial=ninit >= 1, stream=s)
                ck.count(f"{s}:type={d['type']}")
                ck.count(f"{s}:initialised={ninit}")
                if "build_error" in impl:
                    ck.count(f"{s}:invalid-description")
                    continue
                for k, v in impl["before"]["containers"].items():
                    if v is not None:
                        ck.count(f"{s}:container={k}" + ("/3d" if k == "photon" and "array_3d" in v else ""))
                for k in ("photon", "pixel", "signal", "phase", "image"):
                    desc = d["containers"].get(k)
                    if desc and impl["before"]["containers"].get(k) is not None:
                        ck.count(f"{s}:dtype:{k}" + ("/3d" if desc.get("kind") == "3d" else "") + f"={desc.get('dtype', 'float64')}")
                for node in d["containers"].get("data") or []:
                    ck.count(f"{s}:data-group={node.get('kind', 'array')}")
                for x in (d["containers"].get("photon") or {}).get("extra", []):
                    ck.count(f"{s}:photon-3d-extra={x}")
                ck.count(f"{s}:setters-applied", len(impl.get("applied", [])))
                for st in d.get("setters", []):
                    if len(st) > 2 and (isinstance(st[2], (dict, list, int)) and not isinstance(st[2], bool) and not (isinstance(st[2], dict) and "rel" in st[2])):
                        ck.count(f"{s}:representation:{st[1]}:" + ("numpy" if isinstance(st[2], dict) and "np" in st[2] else
                                                                   "tuple" if isinstance(st[2], dict) else "list" if isinstance(st[2], list) else "int")
                                 + (":via-Processor.set" if len(st) > 3 else ""))
                if "after" in impl:
                    a = impl["after"]
                    mine = {"ok": {"ty": a["type"], "shape": a["shape"], "props": {k: token(v) for k, v in a["props"].items()},
                                   "store": {k: token(v) for k, v in a["containers"].items()}}}
                else:
                    mine = {"err": impl["err"]}
                if mine != ans["model"]:
                    ck.disagreement(s, case, mine, ans["model"])
                if why is not None:
                    fld = field_of(why)
                    if fld.endswith(".f"):
                        fld = fld[:-2]
                    if d["type"] == "APD" and fld.split(".")[-1] in ("avalanche_gain", "common_voltage", "pixel_reset_voltage"):
                        fld = "characteristics.setter-not-saved"
                    ck.violation(f"C18:{d['type']}:{fld}", why, {"case": case, "impl": slim(impl)})
            else:
                ck.case(case, nontrivial=True, stream=s)
                ck.count(f"{s}:type={case['type']}")
                mismatch = case["file"]["type"] != case["type"] or case["file"]["rows"] != case["rows"]
                ck.count(f"{s}:" + ("mismatching-file" if mismatch else "matching-file"))
                nexec = sum(1 for t, _ in impl["snaps"] if t == "after")
                ck.count(f"{s}:executions-of-load={min(nexec, 6)}")
                nfile = sum(1 for v in impl["files"].values() if v is not None)
                prefilled = any(m[1] == "fillall" for m in case.get("models", [])) or any(o[0] == "fillall" for o in case.get("ops", []))
                ck.count(f"{s}:file-containers={nfile}/{len(impl['files'])}:" + ("running-detector-prefilled" if prefilled else "running-detector-fresh"))
                if s == "pipeline":
                    ck.count(f"pipeline:load-in={case['at']}")
                    ck.count(f"pipeline:readouts={case['readouts']}:{'non-destructive' if case['nd'] else 'destructive'}")
                    ck.count(f"pipeline:runs={case['runs']}" + (":fresh-detector" if case["fresh"] and case["runs"] > 1 else
                                                                 ":same-detector" if case["runs"] > 1 else ""))
                # model: what the probe placed after each execution of the load model sees, and the last result
                after = [token_store(st) for t, st in impl["snaps"] if t == "after"]
                if "err" in ans["loads"]:
                    mine_loads, model_loads = ({"err": impl.get("err")}, {"err": ans["loads"]["err"]})
                else:
                    keys = [k for k in KEYS2D if k in impl["files"]]
                    model_loads = [{k: m.get(k) for k in keys} for m in ans["loads"]["ok"]]
                    mine_loads = [{k: a.get(k) for k in keys} for a in after]
                if mine_loads != model_loads:
                    shared = [None if m is None else {k: m.get(k) for k in model_loads[0]} for m in ans["shared_loads"]] if model_loads and isinstance(model_loads, list) else None
                    like_shared = shared is not None and mine_loads == [x for x in shared if x is not None][: len(mine_loads)] and len(mine_loads) > 1
                    ck.count(f"{s}:behaves-like-shared-cache" if like_shared else f"{s}:disagreement-after-load")
                    ck.disagreement(s, case, mine_loads, model_loads, key="C18:load_detector:not-the-file-state" if like_shared else None)
                if s == "pipeline" and "err" not in impl and "ok" in ans["model"] and impl["finals"]:
                    fin = token_store(impl["finals"][-1])
                    model_fin = {k: ans["model"]["ok"].get(k) for k in fin}
                    if fin != model_fin:
                        like_noop = "ok" in ans["noop"] and fin == {k: ans["noop"]["ok"].get(k) for k in fin}
                        ck.count("pipeline:behaves-like-no-op" if like_noop else "pipeline:other-disagreement")
                        ck.disagreement(s, case, fin, model_fin, key="C18:load_detector:no-effect" if like_noop else None)
                if why is not None:
                    if "processed-data tree" in why:
                        key = "C18:load_detector:processed-data"
                    elif "although the file has none" in why and "execution" in why:
                        key = "C18:load_detector:stale-container-kept"
                    elif "execution 1 of" in why or "result of readout 0" in why:
                        key = "C18:load_detector:no-effect"
                    elif "execution" in why or "result of readout" in why or "failed at execution" in why:
                        key = "C18:load_detector:not-the-file-state"
                    else:
                        key = "C18:load_detector:error"
                    ck.violation(key, why, {"case": case, "impl": slim(impl)})
    finally:
        shutil.rmtree(tmp, ignore_errors=True)

    ck.rule = ("CCD / CMOS / MKID / APD detectors of 2-4 × 2-5 pixels with random valid properties (optional ones unset with p=0.25, "
               "three kinds of wavelength, APD built from each pair of gain / reset voltage / common voltage), 0-3 properties changed "
               "through their setters after construction, optionally emptied, each container initialised with p=0.5 (photon 2-D or "
               "1-3 wavelengths with optional y/x, scalar and auxiliary coordinates, attributes and a name, image of 4 dtypes, charge as array and/or 1-3 clusters, 0-2 scene sources, 1-3 processed-data groups incl. coordinates-only, attributes-only, empty-leaf and coordinate-inheriting ones) plus 60 directed APDs "
               "(each input pair × voltage setters reaching avalanche biases 1.0-10.1 V, with gain setters before/after) plus "
               "all 64 subsets of the six 2-D containers of an MKID; saved to ASDF, loaded, compared field by field; pipelines with "
               "load_detector in any of the 10 groups, 0-3 writers before, a snapshot probe after, 0-2 writers after, 16 % stored "
               "detectors of another type / shape, stored detectors with every / a random subset of the 2-D containers initialised, "
               "running detector fresh or pre-filled in all containers (all 64 subsets enumerated in the direct stream), 1-3 readouts (destructive / non-destructive) × 1-2 runs in one process on the same "
               "or a fresh detector, so that the model executes up to 6 times on one file; direct calls of the model function 2-4 times "
               "on one detector with in-place += / *= and empty() in between; every execution judged against the file. non-trivial = at least one initialised container; HDF5 not exercised")
    ck.assumptions = [
        "6b: equal = same dtype, shape, values, coordinates, frame columns and rows (field by field), never the library's ==",
        "a charge container nothing was added to (zero array, empty frame), an empty scene and an empty data tree count as uninitialised",
        "the charge container is compared through its public view (`charge.array`, `charge.frame`)",
        "load_detector: `data` = the data containers; geometry, environment, characteristics and the readout clock stay the running detector's",
        "the name and the free-form attributes of a multi-wavelength photon DataArray are generated but not judged (6b: dtype, shape, values, coordinates)",
        "row labels (the pandas index) of the cluster table are handles, not data: columns and rows are compared, the index is not",
        "a stored detector of another type or shape is outside the statement (refused by the repaired model; compared with the Lean model only)",
    ]
    ck.trusted_base.append("C18: the ASDF backend writes and reads back the tree it is given (arrays with dtype and shape, nested dicts, "
                           "None); xarray to_dict/from_dict and pandas DataFrame <-> dict(orient='list') are lossless on the generated contents")
    ck.extra["not_exercised"] = ["HDF5 backend (h5py not installed)"]


def replay(path):
    common.ensure_repo_on_path()
    rp = json.load(open(path))
    case = rp["replay"].get("case")
    if case is None:
        print("replay names a broken obligation/correspondence, no concrete input:", rp["what"])
        return 1
    tmp = tempfile.mkdtemp(prefix="verif-c18-replay-")
    try:
        impl, why = evaluate(case, tmp)
    finally:
        shutil.rmtree(tmp, ignore_errors=True)
    print("impl:", str(slim(impl))[:800])
    print("REPRODUCED: " + why if why else "not reproduced (property holds on this input)")
    return 1 if why else 0


if __name__ == "__main__":
    if len(sys.argv) > 2 and sys.argv[1] == "--replay":
        sys.exit(replay(sys.argv[2]))
    sys.exit(run_check("C18", body))
