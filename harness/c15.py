"""C15 — charge-handling models neither create nor lose charge unaccountably.

obligations: lean/PyxelModel/Props/C15.lean (any ordered field, frames / species / step sequences of any size)
             lean/PyxelModel/Props/C15Real.lean (the CDM capture / release formulas over ℝ satisfy the bound used)
tie to code : differential run of the real model functions on real detectors (simple_collection,
              simple_conversion, simple_full_well, simple_ipc, cdm parallel/serial, simple_persistence,
              persistence with maps) against the Lean model (exact rationals; hardware doubles for CDM), and the
              statement's conservation laws evaluated directly on the detector before/after every call.
comparison  : exact (as rationals) on dyadic inputs and for single-operation models; otherwise relative
              tolerance 1e-9 on per-pixel values and totals (stated in the evidence).
"""

from __future__ import annotations

import json
import math
import shutil
import sys
import tempfile
import warnings
from fractions import Fraction

import common
from common import LeanDriver, bits_float, float_bits, frac, run_check

TOL = 1e-9
INEXACT = [0]  # values of the dyadic persistence stream that were not bit-exact (reported in the evidence)


def F(x):
    return Fraction(x)


def close(a, q, scale=1.0, tol=TOL) -> bool:
    """float/Fraction `a` equals Fraction `q` within tol·max(1, |q|, scale)"""
    return abs(Fraction(a) - q) <= Fraction(tol) * max(1, abs(q), Fraction(scale))


def rat(j):
    return Fraction(j[0], j[1]) if isinstance(j, list) else Fraction(j)


# ------------------------------------------------------------------ generators
def gen_frame(rng, rows, cols, style=None, hi=100000, fractional=False):
    style = style or rng.choice(["empty", "saturated", "hot", "random", "random", "random", "sparse"])
    if style == "empty":
        f = [[0.0] * cols for _ in range(rows)]
    elif style == "saturated":
        f = [[float(hi)] * cols for _ in range(rows)]
    elif style == "hot":
        f = [[0.0] * cols for _ in range(rows)]
        f[rng.randrange(rows)][rng.randrange(cols)] = float(rng.choice([1, 100, hi, 10 * hi]))
    elif style == "sparse":
        f = [[float(rng.randrange(hi)) if rng.random() < 0.3 else 0.0 for _ in range(cols)] for _ in range(rows)]
    else:
        f = [[float(rng.randrange(hi)) for _ in range(cols)] for _ in range(rows)]
    if fractional and style not in ("empty",):
        f = [[x + (rng.random() if x and rng.random() < 0.7 else 0.0) for x in row] for row in f]
    return f, style


def shape(rng):
    return rng.choice([(1, 1), (1, 4), (3, 1), (2, 3), (4, 5), (5, 4), (6, 6)])


def gen_cases(rng, quick):
    n = (lambda q, t: q if quick else t)
    cases = []
    for _ in range(n(50, 500)):
        cases.append(gen_collect(rng))
    for _ in range(n(40, 400)):
        r, c = shape(rng)
        ph, s1 = gen_frame(rng, r, c, hi=rng.choice([10, 1000, 100000]), fractional=rng.random() < 0.4)
        qe = rng.choice([0.0, 1.0, 0.5, 0.25, 0.9, 0.123456789, rng.random(), rng.random()])
        cases.append({"kind": "qe", "rows": r, "cols": c, "photons": ph, "qe": qe, "sampling": rng.random() < 0.4,
                      "seed": rng.randrange(2**31), "via_characteristics": rng.random() < 0.3, "styles": [s1]})
    for _ in range(n(40, 400)):
        r, c = shape(rng)
        fwc = rng.choice([0, 1, 100, 1000, 50000, 100000, 99999.5, rng.randrange(1, 200000)])
        px, s1 = gen_frame(rng, r, c, hi=rng.choice([1000, 100000, 200000]), fractional=rng.random() < 0.4)
        if rng.random() < 0.5 and r * c > 1:  # values exactly at, just below and just above the capacity
            px[0][0] = float(fwc)
            px[-1][-1] = math.nextafter(float(fwc), math.inf)
            px[0][-1] = math.nextafter(float(fwc), -math.inf) if fwc > 0 else 0.0
        cases.append({"kind": "fullwell", "rows": r, "cols": c, "pixel": px, "fwc": fwc, "dtype": "float64",
                      "via_characteristics": isinstance(fwc, int) and rng.random() < 0.3, "styles": [s1]})
    for _ in range(n(40, 400)):
        cases.append(gen_fullwell_far(rng))
    for _ in range(n(40, 400)):
        r, c = shape(rng)
        k = rng.random()
        if k < 0.55:  # valid, dyadic or decimal
            cpl = rng.choice([1 / 16, 1 / 32, 0.1, 0.02, 0.2, rng.uniform(0.001, 0.2)])
            d = rng.choice([0.0, cpl / 4, cpl / 2, rng.uniform(0, cpl * 0.9)])
            d = (0.25 - cpl) / 2 if cpl + d > 0.2499 else d
            a = rng.choice([0.0, cpl / 8, -cpl / 4, rng.uniform(-cpl, cpl * 0.9)])
        elif k < 0.7:  # on the guards' edges
            cpl = rng.choice([0.125, 0.25, 0.1875])  # dyadic: the guards' float sums are exact
            d = rng.choice([0.25 - cpl, cpl, 0.0, -cpl])
            a = rng.choice([cpl, 0.0, math.nextafter(cpl, 0)])
        else:  # anything
            cpl, d, a = rng.uniform(-0.1, 0.4), rng.uniform(-0.1, 0.3), rng.uniform(-0.3, 0.3)
        style = rng.choice(["uniform", "uniform", None])
        if style == "uniform":
            u = float(rng.choice([0, 1, 777, 65535, 12345.678]))
            px, s1 = [[u] * c for _ in range(r)], "uniform"
        else:
            px, s1 = gen_frame(rng, r, c, fractional=rng.random() < 0.3)
        cases.append({"kind": "ipc", "rows": r, "cols": c, "pixel": px, "c": cpl, "d": d, "a": a, "styles": [s1]})
    for _ in range(n(40, 400)):
        r, c = rng.choice([(1, 1), (2, 3), (4, 3), (5, 5), (8, 4)])
        ns = rng.randrange(1, 6)
        px, s1 = gen_frame(rng, r, c, hi=rng.choice([100, 10000, 100000]), fractional=rng.random() < 0.5)
        cases.append({"kind": "cdm", "rows": r, "cols": c, "pixel": px, "direction": rng.choice(["parallel", "serial"]),
                      "beta": rng.choice([0.0, 1.0, 0.3, 0.37, 0.6, rng.random()]),
                      "vg": rng.choice([1e-10, 1.62e-10, 1e-7, rng.uniform(1e-11, 1e-6)]),
                      "t": rng.choice([9.4722e-04, 1e-3, 1.0, 10.0, rng.uniform(1e-5, 10)]),
                      "fwc": rng.choice([1e5, 175000.0, 1e7, 1000.0, float(rng.randrange(100, 10**6))]),
                      "tr": [rng.choice([3e-2, 1e-3, 1.0, 100.0, rng.uniform(1e-4, 10)]) for _ in range(ns)],
                      "nt": [rng.choice([0.0, 20.0, 1e5, 1e9, rng.uniform(0, 1e11)]) for _ in range(ns)],
                      "sigma": [rng.choice([0.0, 1e-10, 1e-15, 1e-20, rng.uniform(0, 1e-9)]) for _ in range(ns)],
                      "ci": rng.random() < 0.3, "temperature": rng.choice([100.0, 200.0, 273.0, rng.uniform(50, 300)]),
                      "styles": [s1]})
    for _ in range(n(24, 240)):
        cases.append(gen_cdm_strong(rng))
    for _ in range(n(16, 160)):
        cases.append(gen_cdm_sky(rng))
    for _ in range(n(80, 800)):
        cases.append(gen_persist(rng))
    return cases


def gen_fullwell_far(rng):
    """pixels orders of magnitude above the capacity, non-round values, single hot pixels, float32 frames:
    where `charge - (charge - capacity)` and similar rewritings stop being the minimum"""
    import numpy as np

    r, c = shape(rng)
    f32 = rng.random() < 0.35
    if f32:
        # capacities exactly representable in float32 (the frame's own type), so that "the capacity" is unambiguous
        fwc = float(np.float32(rng.choice([90000.0, 100000.0, 123456.75, 1000.0, 65535.0, 99999.5, rng.uniform(1e3, 2e5)])))
        lo, hi, hot = rng.choice([(2e8, 9e8), (1e6, 1e7), (1e5, 1e6), (1e10, 1e12)]), None, rng.choice([1e13, 4e21, 3e38, 2.0**25 * fwc * 3])
        lo, hi = lo
    else:
        fwc = rng.choice([123456.7, 100000, 90000, 99999.5, 0.1, 1e-3, rng.uniform(1e3, 2e5), rng.uniform(1, 100)])
        lo, hi = rng.choice([(5e8, 9e9), (1e6, 1e8), (1e12, 1e15), (2e5, 1e6), (1e17, 1e20)])
        hot = rng.choice([4e21, 1e30, 1e300, 2.0**54 * float(fwc) * 3, 2.0**53 * float(fwc) + 12345.678])
    style = rng.choice(["far-above", "far-above", "hot", "hot", "mixed"])
    if style == "far-above":
        px = [[rng.uniform(lo, hi) for _ in range(c)] for _ in range(r)]
    elif style == "hot":
        base = rng.choice([0.0, float(fwc) / 2, float(fwc)])
        px = [[base] * c for _ in range(r)]
        px[rng.randrange(r)][rng.randrange(c)] = hot
    else:
        px = [[rng.choice([rng.uniform(lo, hi), rng.uniform(0, float(fwc)), float(fwc), hot, 0.0]) for _ in range(c)] for _ in range(r)]
    if f32:
        px = [[float(np.float32(x)) for x in row] for row in px]
    return {"kind": "fullwell", "rows": r, "cols": c, "pixel": px, "fwc": fwc, "dtype": "float32" if f32 else "float64",
            "via_characteristics": False, "styles": [style + ("-f32" if f32 else "")]}


def gen_collect(rng):
    """generated charge as 2-D arrays and/or clusters (cosmic rays, charge deposition), one or several steps.
    Multi-contribution / multi-step cases are integer valued (every float sum exact); a single array may be fractional."""
    r, c = shape(rng)
    nsteps = rng.choice([1, 1, 2, 3, 4])
    single = nsteps == 1 and rng.random() < 0.5
    px, s0 = gen_frame(rng, r, c, fractional=single and rng.random() < 0.5)
    steps, tags = [], []
    for k in range(nsteps):
        mode = "array" if single else rng.choice(["array", "clusters", "clusters", "array+clusters", "clusters+array", "clusters+clusters", "nothing"])
        gen = []
        for part in ([] if mode == "nothing" else mode.split("+")):
            if part == "array":
                f, _ = gen_frame(rng, r, c, fractional=single and rng.random() < 0.6)
                gen.append({"array": f})
            else:
                m = rng.choice([1, 2, 5, 12])
                # several clusters may fall into one pixel; positions anywhere inside the pixel (dyadic offsets)
                gen.append({"clusters": [[rng.randrange(r), rng.randrange(c), float(rng.choice([1, 10, 120, 3000, 10**5])),
                                          rng.choice([0.25, 0.5, 0.75]), rng.choice([0.25, 0.5, 0.75])] for _ in range(m)]})
        step = {"reset": k > 0 and rng.random() < 0.25, "gen": gen}
        ncl = sum(len(g["clusters"]) for g in gen if "clusters" in g)
        if mode in ("clusters", "clusters+clusters") and ncl >= 2 and rng.random() < 0.6:
            # history: something reads the charge (outputs, a notebook cell, another model), the clusters are then
            # changed IN PLACE through the public Charge API, and only then the charge is collected
            op = rng.choice(["set_number", "remove", "move"])
            ids = sorted(rng.sample(range(ncl), rng.randrange(1, ncl)))  # never all of them
            edit = {"peek": True, "op": op, "ids": ids}
            if op == "set_number":
                edit["values"] = [float(rng.choice([0, 5, 77, 40000])) for _ in ids]
            elif op == "move":
                edit["values"] = [[rng.randrange(r), rng.choice([0.25, 0.5, 0.75])] for _ in ids]  # new row, offset
            step["edit"] = edit
            mode += "→read→" + op
        steps.append(step)
        tags.append(mode)
    return {"kind": "collect", "rows": r, "cols": c, "pixel": px, "steps": steps, "styles": [s0], "gen_modes": tags}


def step_contributions(case, step):
    """the exact frames of everything generated in a step, AFTER the in-place edit of the clusters if there is one
    (derived from what the harness put in, never from detector.charge.array)"""
    if "edit" not in step:
        return [contribution_frame(case, g) for g in step["gen"]]
    cl = [list(x) for g in step["gen"] for x in g["clusters"]]
    e = step["edit"]
    if e["op"] == "set_number":
        for i, v in zip(e["ids"], e["values"]):
            cl[i][2] = v
    elif e["op"] == "move":
        for i, (row, off) in zip(e["ids"], e["values"]):
            cl[i][0], cl[i][3] = row, off
    else:
        cl = [x for i, x in enumerate(cl) if i not in set(e["ids"])]
    return [contribution_frame(case, {"clusters": cl})]


def contribution_frame(case, g):
    """one generated contribution as an exact rows×cols frame of Fractions (from the generated quantities only)"""
    r, c = case["rows"], case["cols"]
    if "array" in g:
        return [[F(x) for x in row] for row in g["array"]]
    f = [[F(0)] * c for _ in range(r)]
    for i, j, num, _, _ in g["clusters"]:
        f[i][j] += F(num)
    return f


def gen_cdm_sky(rng):
    """bright packets followed (in readout order) by FAINT packets that are still above the 0.01 e- threshold — stars
    on a sky background: the traps are then fuller than the equilibrium of the packet and the capture formula is
    negative; visible trapping, release times longer than the transfer period"""
    direction = rng.choice(["parallel", "parallel", "serial"])
    ns = rng.randrange(1, 4)
    r, c = (rng.choice([10, 16, 24]), rng.choice([1, 2, 3])) if direction == "parallel" else (rng.choice([1, 2, 3]), rng.choice([10, 16, 24]))
    sky = float(rng.choice([1, 5, 20, 100]))
    px = [[sky] * c for _ in range(r)]
    length = r if direction == "parallel" else c
    for line in range(c if direction == "parallel" else r):
        for _ in range(rng.choice([1, 1, 2])):
            pos = rng.randrange(1, max(2, length // 2))
            v = float(rng.choice([1000, 5000, 20000, 60000]))
            if direction == "parallel":
                px[pos][line] = v
            else:
                px[line][pos] = v
    t = rng.choice([1e-3, 9.4722e-04, 1e-2])
    return {"kind": "cdm", "rows": r, "cols": c, "pixel": px, "direction": direction,
            "beta": rng.choice([0.3, 0.37, 0.6]), "vg": rng.choice([1.62e-10, 1e-10]), "t": t, "fwc": rng.choice([1e5, 175000.0]),
            "tr": [t * rng.choice([5, 20, 100, 1000]) for _ in range(ns)],
            "nt": [rng.choice([2e10, 1e11, 1e12]) for _ in range(ns)],
            "sigma": [rng.choice([1e-10, 1e-9, 1e-15]) for _ in range(ns)],
            "ci": False, "temperature": rng.choice([200.0, 153.0]), "styles": ["bright-on-sky"]}


def gen_cdm_strong(rng):
    """strong trapping (capture fractions of the species summing above 1), a bright packet followed by dark
    register elements: the regime where an accounting error shows up as created charge.  All parameters are
    inside the ranges `cdm` itself checks."""
    direction = rng.choice(["serial", "serial", "serial", "parallel"])
    ns = rng.randrange(2, 6)
    r, c = (rng.choice([1, 2, 4]), rng.choice([12, 20, 30])) if direction == "serial" else (rng.choice([12, 20, 30]), rng.choice([1, 2, 4]))
    px = [[0.0] * c for _ in range(r)]
    length = c if direction == "serial" else r
    for line in range(r if direction == "serial" else c):
        for _ in range(rng.choice([1, 1, 2, 3])):
            pos = rng.randrange(1, max(2, length // 2))
            v = float(rng.choice([100, 500, 2000, 10000]))
            if direction == "serial":
                px[line][pos] = v
            else:
                px[pos][line] = v
    dens = rng.choice([1e12, 1e13, 1e14, 1e15])
    return {"kind": "cdm", "rows": r, "cols": c, "pixel": px, "direction": direction,
            "beta": rng.choice([0.3, 0.3, 0.0, 0.6, 1.0]), "vg": rng.choice([1e-10, 1e-10, 1.62e-10, 1e-9]),
            "t": rng.choice([1e-3, 1e-3, 9.4722e-04, 1e-2]), "fwc": rng.choice([1e4, 1e4, 1e5]),
            "tr": [2e-3 * (k + 1) * rng.choice([1, 1, 0.5, 5]) for k in range(ns)],
            "nt": [dens * rng.choice([1, 1, 0.5, 3]) for _ in range(ns)],
            "sigma": [rng.choice([1e-10, 1e-10, 1e-9, 3e-11]) for _ in range(ns)],
            "ci": direction == "parallel" and rng.random() < 0.3, "temperature": rng.choice([200.0, 153.0, 273.0]),
            "styles": ["strong-trapping"]}


def gen_persist(rng):
    exact = rng.random() < 0.5
    variant = rng.choice(["simple", "simple", "full"])
    r, c = rng.choice([(1, 1), (1, 3), (2, 2), (3, 4)])
    ns = rng.randrange(1, 4) if exact else rng.randrange(1, 6)
    steps = rng.randrange(1, 4) if exact else rng.randrange(1, 6)
    if exact:
        dt = rng.choice([0.5, 1.0, 2.0])
        taus = [rng.choice([0.5, 1.0, 2.0, 4.0, 8.0]) for _ in range(ns)]
        dens = [rng.choice([0.0, 0.25, 0.5, 0.75, 1.0]) for _ in range(ns)]
        caps = [float(rng.choice([0, 10, 100, 1000, 10**6])) for _ in range(ns)] if rng.random() < 0.5 else None
        # bit budget: every product with a density adds ≤ 2 fraction bits; (3 species × 2 + 2) × 3 steps + 16 < 53
        props = [rng.choice([0.5, 1.0]) for _ in range(ns)]
        dmap = [[rng.choice([0.0, 0.5, 1.0]) for _ in range(c)] for _ in range(r)]
        cmap = [[float(rng.choice([0, 16, 256, 4096])) for _ in range(c)] for _ in range(r)] if rng.random() < 0.5 else None
        hi = 2**16
        adds = []
        for s in range(steps):
            f, _ = gen_frame(rng, r, c, hi=hi)
            if s and rng.random() < 0.6:  # signal drops: traps release
                f = [[0.0] * c for _ in range(r)]
            adds.append(f)
    else:
        dt = rng.choice([0.1, 1.0, 10.0, rng.uniform(0.01, 100)])
        taus = [rng.choice([1.0, 10.0, 100.0, 1000.0, 10000.0, rng.uniform(0.05, 1000)]) for _ in range(ns)]
        dens = [rng.choice([0.0, 1.0, 0.307, 0.175, 0.188, rng.random()]) for _ in range(ns)]
        caps = [rng.choice([0.0, 5.0, 100.0, rng.uniform(0, 10**5)]) for _ in range(ns)] if rng.random() < 0.5 else None
        props = [rng.choice([0.307, 0.175, 0.188, 0.136, 0.194, rng.random()]) for _ in range(ns)]
        dmap = [[rng.choice([0.0, 1.0, rng.random(), rng.random()]) for _ in range(c)] for _ in range(r)]
        cmap = [[rng.choice([0.0, rng.uniform(0, 10**5)]) for _ in range(c)] for _ in range(r)] if rng.random() < 0.5 else None
        adds = []
        for s in range(steps):
            f, _ = gen_frame(rng, r, c, fractional=rng.random() < 0.5)
            if s and rng.random() < 0.5:
                f = [[0.0] * c for _ in range(r)]
            adds.append(f)
    case = {"kind": "persist", "variant": variant, "rows": r, "cols": c, "dt": dt, "taus": taus, "adds": adds, "exact": exact}
    if variant == "simple":
        case.update({"dens": dens, "caps": caps})
    else:
        case.update({"props": props, "dens_map": dmap, "cap_map": cmap})
    return case


# ------------------------------------------------------------------ implementation side
TMP = None


def run_impl(case):
    import numpy as np
    import pyx

    warnings.filterwarnings("ignore")
    kind = case["kind"]
    r, c = case["rows"], case["cols"]
    try:
        if kind == "collect":
            from pyxel.models.charge_collection import simple_collection

            det = pyx.make_detector("CCD", r, c)
            det.empty()  # like the pipeline before the first model
            det.pixel.array = np.array(case["pixel"], dtype=float)
            vs, hs = det.geometry.pixel_vert_size, det.geometry.pixel_horz_size
            states = []
            for k, step in enumerate(case["steps"]):
                if k > 0:
                    det.empty(reset=step["reset"])  # what the pipeline does between readouts (destructive or not)
                for g in step["gen"]:
                    if "array" in g:
                        det.charge.add_charge_array(np.array(g["array"], dtype=float))
                    else:
                        cl = g["clusters"]
                        z = np.zeros(len(cl))
                        det.charge.add_charge(
                            particle_type="e", particles_per_cluster=np.array([x[2] for x in cl], dtype=float), init_energy=z,
                            init_ver_position=np.array([(x[0] + x[3]) * vs for x in cl]),
                            init_hor_position=np.array([(x[1] + x[4]) * hs for x in cl]),
                            init_z_position=z, init_ver_velocity=z, init_hor_velocity=z, init_z_velocity=z)
                e = step.get("edit")
                if e:
                    _ = det.charge.array  # the one deliberate read: a history "read → in-place edit → collect"
                    if e["op"] == "set_number":
                        det.charge.set_frame_values("number", list(e["values"]), id_list=list(e["ids"]))
                    elif e["op"] == "move":
                        det.charge.set_frame_values("position_ver", [(row + off) * vs for row, off in e["values"]], id_list=list(e["ids"]))
                    else:
                        det.charge.remove_from_frame(id_list=list(e["ids"]))
                # otherwise NOTHING reads detector.charge.array before the model: reading it refreshes the container and
                # would mask a collection model that by-passes the property; the oracle uses the generated quantities only
                simple_collection(det)
                states.append(det.pixel.array.tolist())
            return {"states": states}
        if kind == "qe":
            from pyxel.models.charge_generation import simple_conversion

            over = {"characteristics": {"quantum_efficiency": case["qe"]}} if case["via_characteristics"] else {}
            det = pyx.make_detector("CCD", r, c, **over)
            det.photon.array = np.array(case["photons"], dtype=float)
            simple_conversion(det, quantum_efficiency=None if case["via_characteristics"] else case["qe"],
                              seed=case["seed"], binomial_sampling=case["sampling"])
            return {"charge": det.charge.array.tolist(), "photon_after": np.asarray(det.photon.array).tolist()}
        if kind == "fullwell":
            from pyxel.models.charge_collection import simple_full_well

            over = {"characteristics": {"full_well_capacity": case["fwc"]}} if case["via_characteristics"] else {}
            det = pyx.make_detector("CCD", r, c, **over)
            det.pixel.array = np.array(case["pixel"], dtype=case.get("dtype", "float64"))
            arg = None if case["via_characteristics"] else case["fwc"]
            simple_full_well(det, fwc=arg)
            once = [[float(x) for x in row] for row in det.pixel.array]
            simple_full_well(det, fwc=arg)
            return {"pixel": once, "twice": [[float(x) for x in row] for row in det.pixel.array], "dtype": str(det.pixel.array.dtype)}
        if kind == "ipc":
            from pyxel.models.charge_collection import simple_ipc

            det = pyx.make_detector("CMOS", r, c)
            det.pixel.array = np.array(case["pixel"], dtype=float)
            kernel = ipc_weights(case["c"], case["d"], case["a"])
            simple_ipc(det, coupling=case["c"], diagonal_coupling=case["d"], anisotropic_coupling=case["a"])
            return {"pixel": det.pixel.array.tolist(), "kernel": kernel}
        if kind == "cdm":
            from pyxel.models.charge_transfer import cdm

            det = pyx.make_detector("CCD", r, c, environment={"temperature": case["temperature"]})
            det.pixel.array = np.array(case["pixel"], dtype=float)
            cdm(det, direction=case["direction"], beta=case["beta"], trap_release_times=case["tr"], trap_densities=case["nt"],
                sigma=case["sigma"], full_well_capacity=case["fwc"], max_electron_volume=case["vg"],
                transfer_period=case["t"], charge_injection=case["ci"])
            return {"pixel": det.pixel.array.tolist()}
        if kind == "persist":
            from pyxel.models.charge_collection import persistence, simple_persistence

            det = pyx.make_detector("CMOS", r, c)
            det.set_readout(times=[float(i + 1) for i in range(len(case["adds"]))], start_time=0.0)
            det.pixel.array = np.zeros((r, c))
            kw = {}
            if case["variant"] == "full":
                import os

                tag = f"{abs(hash(json.dumps(case, sort_keys=True))):x}"
                dfile = os.path.join(TMP, f"dens_{tag}.npy")
                np.save(dfile, np.array(case["dens_map"], dtype=float))
                kw["trap_densities_filename"] = dfile
                if case["cap_map"] is not None:
                    cfile = os.path.join(TMP, f"cap_{tag}.npy")
                    np.save(cfile, np.array(case["cap_map"], dtype=float))
                    kw["trap_capacities_filename"] = cfile
            states = []
            for add in case["adds"]:
                det.time_step = case["dt"]
                det.pixel.array = det.pixel.array + np.array(add, dtype=float)
                before = det.pixel.array.copy()
                tb = det.persistence.trapped_charge_array.copy() if det.has_persistence() else np.zeros((len(case["taus"]), r, c))
                if case["variant"] == "simple":
                    simple_persistence(det, trap_time_constants=case["taus"], trap_densities=case["dens"], trap_capacities=case["caps"])
                else:
                    persistence(det, trap_time_constants=case["taus"], trap_proportions=case["props"], **kw)
                states.append({"pixel_before": before.tolist(), "trapped_before": tb.tolist(),
                               "pixel": det.pixel.array.tolist(), "trapped": det.persistence.trapped_charge_array.tolist()})
            return {"states": states}
        raise common.InfraError("unknown kind " + kind)
    except common.InfraError:
        raise
    except Exception as e:  # noqa: BLE001
        return {"error": common.err_kind(e), "msg": f"{type(e).__name__}: {e}"[:300]}


def ipc_weights(cpl, d, a):
    """the nine coupling weights the model applies, or None when the couplings are refused.
    Taken from the kernel function named in the property's anchors when it is importable under its public name;
    otherwise MEASURED through the public model: the response of `simple_ipc` to a unit charge in the middle of a
    5×5 frame is the kernel (the mean-valued boundary only reaches the outer ring)."""
    import numpy as np
    import pyx

    try:
        import importlib

        fn = getattr(importlib.import_module("pyxel.models.charge_collection.inter_pixel_capacitance"), "ipc_kernel", None)
    except ImportError:
        fn = None
    try:
        if fn is not None:
            return np.asarray(fn(cpl, d, a), dtype=float).tolist()
        from pyxel.models.charge_collection import simple_ipc

        det = pyx.make_detector("CMOS", 5, 5)
        frame = np.zeros((5, 5))
        frame[2, 2] = 1.0
        det.pixel.array = frame
        simple_ipc(det, coupling=cpl, diagonal_coupling=d, anisotropic_coupling=a)
        return det.pixel.array[1:4, 1:4][::-1, ::-1].tolist()
    except ValueError:
        return None


def thermal_velocity(temperature):
    import astropy.constants as const
    import numpy as np

    return float(100.0 * np.sqrt(3 * const.k_B.value * temperature / (0.5 * const.m_e.value)))


# ------------------------------------------------------------------ model side
def flat(frame):
    return [x for row in frame for x in row]


def persist_species(case, i, j):
    """per-pixel species [[dens, tf, cap]] as exact rationals of the doubles the code receives"""
    out = []
    for k, tau in enumerate(case["taus"]):
        tf = F(case["dt"]) / F(tau)
        if case["variant"] == "simple":
            dens = F(case["dens"][k])
            cap = None if case["caps"] is None else F(case["caps"][k])
        else:
            d = case["dens_map"][i][j]
            d = 0.0 if (d < 0 or math.isnan(d) or math.isinf(d)) else d
            dens = F(d) * F(case["props"][k])
            cap = None if case["cap_map"] is None else F(case["cap_map"][i][j]) * F(case["props"][k])
        out.append([frac(dens), frac(tf), None if cap is None else frac(cap)])
    return out


def lean_request(case):
    kind = case["kind"]
    if kind == "collect":
        return {"op": "collect_seq", "pixel0": [frac(x) for x in flat(case["pixel"])],
                "steps": [{"reset": bool(st["reset"]), "contributions": [[frac(x) for x in flat(f)] for f in step_contributions(case, st)]}
                          for st in case["steps"]]}
    if kind == "qe":
        return {"op": "qe", "qe": frac(case["qe"]), "photons": [frac(x) for x in flat(case["photons"])]}
    if kind == "fullwell":
        return {"op": "fullwell", "fwc": frac(case["fwc"]), "xs": [frac(x) for x in flat(case["pixel"])]}
    if kind == "ipc":
        return {"op": "ipc", "c": frac(case["c"]), "d": frac(case["d"]), "a": frac(case["a"]), "grid": [[frac(x) for x in row] for row in case["pixel"]]}
    if kind == "cdm":
        px = case["pixel"]
        r, c = case["rows"], case["cols"]
        lines = [[px[i][j] for i in range(r)] for j in range(c)] if case["direction"] == "parallel" else [list(row) for row in px]
        return {"op": "cdm", "beta": float_bits(case["beta"]), "vg": float_bits(case["vg"]), "t": float_bits(case["t"]),
                "fwc": float_bits(case["fwc"]), "vth": float_bits(thermal_velocity(case["temperature"])),
                "tr": [float_bits(x) for x in case["tr"]], "nt": [float_bits(x) for x in case["nt"]],
                "sigma": [float_bits(x) for x in case["sigma"]],
                "charge_injection": bool(case["ci"] and case["direction"] == "parallel"), "transfers": r,
                "lines": [[float_bits(x) for x in ln] for ln in lines]}
    if kind == "persist":
        r, c = case["rows"], case["cols"]
        pixels = []
        for i in range(r):
            for j in range(c):
                pixels.append({"species": persist_species(case, i, j), "pixel": 0, "trapped": [0] * len(case["taus"]),
                               "adds": [frac(a[i][j]) for a in case["adds"]]})
        return {"op": "persist", "pixels": pixels}
    raise common.InfraError(kind)


# ------------------------------------------------------------------ the statement on the implementation's output
def property_predicate(case, impl):
    """→ list of (clause, description); [] = holds.  Independent of the Lean model."""
    kind = case["kind"]
    if "error" in impl:
        if kind == "ipc" and impl["error"] == "ValueError" and not ipc_guards(case):
            return []
        return [("error", f"model function raised on an input in range: {impl.get('msg', impl['error'])}")]
    out = []
    if kind == "collect":
        # expected pixels from the GENERATED quantities only (never from detector.charge.array)
        exp = [F(x) for x in flat(case["pixel"])]
        for k, (step, got) in enumerate(zip(case["steps"], impl["states"])):
            if k > 0 and step["reset"]:
                exp = [F(0)] * len(exp)
            gen = [F(0)] * len(exp)
            for f in step_contributions(case, step):
                gen = [a + b for a, b in zip(gen, flat(f))]
            exp = [F(float(a + b)) for a, b in zip(exp, gen)]
            bad = [(i, a, e) for i, (a, e) in enumerate(zip(flat(got), exp)) if F(a) != e]
            if bad:
                i, a, e = bad[0]
                kinds = "+".join("clusters" if "clusters" in g else "array" for g in step["gen"]) or "nothing"
                if "edit" in step:
                    kinds += f", charge read, then clusters {step['edit']['ids']} changed in place by {step['edit']['op']}"
                out.append(("collection", f"step {k} (generated as {kinds}): pixel {divmod(i, case['cols'])} holds {a!r} e-, "
                                          f"previous content + generated charge is {float(e)!r} e- "
                                          f"(generated in this step: {float(sum(gen))!r} e- in total, pixels gained {float(sum(F(x) for x in flat(got)) - sum(exp) + sum(gen))!r})"))
                break
    elif kind == "qe":
        for a, p in zip(flat(impl["charge"]), flat(case["photons"])):
            if case["sampling"]:
                if not (0 <= a <= p) or a != int(a):
                    out.append(("qe-bounds", f"{p!r} incident photons gave {a!r} electrons (efficiency {case['qe']!r}, sampling on)"))
                    break
            elif F(a) != F(float(F(p) * F(case["qe"]))):
                out.append(("qe-exact", f"{p!r} photons × efficiency {case['qe']!r} gave {a!r} (sampling off)"))
                break
    elif kind == "fullwell":
        fwc = float(case["fwc"])
        dt = case.get("dtype", "float64")
        for a, p in zip(flat(impl["pixel"]), flat(case["pixel"])):
            if a != min(p, fwc):
                out.append(("fullwell-min", f"charge {p!r}, capacity {fwc!r} ({dt} frame) gave {a!r}, not the minimum"))
                break
        for a, b, p in zip(flat(impl["pixel"]), flat(impl["twice"]), flat(case["pixel"])):
            if b != a:
                out.append(("fullwell-idem", f"charge {p!r}, capacity {fwc!r} ({dt} frame): first application gave {a!r}, the second changed it into {b!r}"))
                break
    elif kind == "ipc":
        if not ipc_guards(case):
            return [("ipc-guard", f"couplings {case['c']!r}, {case['d']!r}, {case['a']!r} violate ipc_kernel's guards but were accepted")]
        ks = math.fsum(flat(impl["kernel"]))
        if abs(ks - 1.0) > 1e-12:
            out.append(("ipc-weights", f"kernel weights sum to {ks!r}, not 1 (couplings {case['c']!r}, {case['d']!r}, {case['a']!r})"))
        if case["styles"] == ["uniform"]:
            u = case["pixel"][0][0]
            bad = [a for a in flat(impl["pixel"]) if abs(a - u) > TOL * max(1.0, abs(u))]
            if bad:
                out.append(("ipc-uniform", f"uniform frame of {u!r} became {bad[0]!r} (couplings {case['c']!r}, {case['d']!r}, {case['a']!r})"))
    elif kind == "cdm":
        o = flat(impl["pixel"])
        neg = [a for a in o if a < 0 or math.isnan(a)]
        if neg:
            out.append(("cdm-negative", f"{case['direction']} CTI produced pixel value {neg[0]!r}"))
        tin, tout = math.fsum(flat(case["pixel"])), math.fsum(o)
        if tout > tin * (1 + TOL) + TOL:
            out.append(("cdm-total", f"{case['direction']} CTI received {tin!r} e- and returned {tout!r} e-"))
    elif kind == "persist":
        nsp = len(case["taus"])
        for s, st in enumerate(impl["states"]):
            r, c = case["rows"], case["cols"]
            for i in range(r):
                for j in range(c):
                    before = F(st["pixel_before"][i][j]) + sum(F(st["trapped_before"][k][i][j]) for k in range(nsp))
                    after = F(st["pixel"][i][j]) + sum(F(st["trapped"][k][i][j]) for k in range(nsp))
                    # dyadic stream: equal as rationals; should a rounding have occurred after all, 1e-9 applies
                    ok = (before == after) or close(after, before)
                    if not ok:
                        out.append(("persistence-conservation",
                                    f"{case['variant']} persistence, {nsp} species, step {s}, pixel ({i},{j}): pixel+trapped was {float(before)!r} e-, is {float(after)!r} e-"))
                        return out
                    tneg = [st["trapped"][k][i][j] for k in range(nsp) if st["trapped"][k][i][j] < 0]
                    if tneg:
                        out.append(("persistence-negative", f"trapped charge {tneg[0]!r} < 0 at step {s}, pixel ({i},{j})"))
                        return out
    return out


def ipc_guards(case):
    cpl, d, a = case["c"], case["d"], case["a"]
    return d < cpl and a < cpl and 0 <= cpl + d <= 0.25


# ------------------------------------------------------------------ correspondence
def compare(case, impl, ans):
    """→ None if implementation == model (within the stated comparison), else a short description"""
    kind = case["kind"]
    if "error" in impl:
        return None if ("error" in ans and ans["error"] == impl["error"]) else f"impl raised {impl['error']}, model did not"
    if "error" in ans:
        return f"model refuses ({ans['error']}), implementation accepted"
    if kind == "collect":
        for k, (got, mod) in enumerate(zip(impl["states"], ans["model"])):
            if not all(F(a) == F(float(rat(q))) for a, q in zip(flat(got), mod)):
                return f"step {k}: pixel ≠ rn(pixel + generated charge)"
        return None
    if kind == "qe":
        if case["sampling"]:
            return None
        m = [rat(x) for x in ans["model"]]
        return None if all(F(a) == F(float(q)) for a, q in zip(flat(impl["charge"]), m)) else "charge ≠ rn(photons × qe)"
    if kind == "fullwell":
        m = [rat(x) for x in ans["model"]]
        t = [rat(x) for x in ans["twice"]]
        ok = all(F(a) == q for a, q in zip(flat(impl["pixel"]), m)) and all(F(a) == q for a, q in zip(flat(impl["twice"]), t))
        return None if ok else "pixel ≠ min(pixel, fwc)"
    if kind == "ipc":
        m = [rat(x) for row in ans["model"] for x in row]
        scale = max([abs(x) for x in flat(case["pixel"])] + [1.0])
        return None if all(close(a, q, scale) for a, q in zip(flat(impl["pixel"]), m)) else "convolution differs by more than 1e-9"
    if kind == "cdm":
        r, c = case["rows"], case["cols"]
        lines = [[bits_float(b) for b in ln] for ln in ans["model"]]
        px = impl["pixel"]
        ilines = [[px[i][j] for i in range(r)] for j in range(c)] if case["direction"] == "parallel" else px
        for ln, iln in zip(lines, ilines):
            for a, b in zip(iln, ln):
                if abs(a - b) <= TOL * max(1.0, abs(b)):
                    continue
                if min(a, b) == 0.0 and max(a, b) < 0.01 * (1 + 1e-6):
                    break  # the `< 0.01 → 0` cut fell differently by an ulp of exp/pow: rest of the line not comparable
                return f"CDM pixel {a!r} vs model {b!r}"
        return None
    if kind == "persist":
        r, c = case["rows"], case["cols"]
        nsp = len(case["taus"])
        for s, st in enumerate(impl["states"]):
            for i in range(r):
                for j in range(c):
                    mp, mt = ans["model"][i * c + j][s]
                    vals = [(st["pixel"][i][j], rat(mp))] + [(st["trapped"][k][i][j], rat(mt[k])) for k in range(nsp)]
                    scale = abs(F(st["pixel_before"][i][j])) + sum(abs(F(st["trapped_before"][k][i][j])) for k in range(nsp))
                    for a, q in vals:
                        if case["exact"] and F(a) != q:
                            INEXACT[0] += 1
                        if not (F(a) == q or close(a, q, scale)):
                            ap, at = ans["asis"][i * c + j][s]
                            which = "pinned-tree loop (…AsIs model) reproduces it" if (close(st["pixel"][i][j], rat(ap), scale)) else "neither model"
                            return f"step {s} pixel ({i},{j}): {a!r} vs model {float(q)!r}; {which}"
        return None
    return "?"


def nontrivial(case):
    kind = case["kind"]
    if kind == "persist":
        return len(case["taus"]) >= 2 and any(any(x for x in flat(a)) for a in case["adds"])
    if kind == "collect":
        return any(g for st in case["steps"] for g in st["gen"])
    key = {"qe": "photons"}.get(kind, "pixel")
    return any(x for x in flat(case[key]))


def body(ck: common.Check):
    global TMP
    ck.obligations(["PyxelModel.Props.C15", "PyxelModel.Props.C15Real"], ["PyxelModel.Drive.C15"])
    cases = gen_cases(ck.rng, ck.tier == "quick")
    answers = LeanDriver("C15").batch([lean_request(c) for c in cases])
    TMP = tempfile.mkdtemp(prefix="verif-c15-")
    try:
        for case, ans in zip(cases, answers):
            if "bad" in ans:
                raise common.InfraError(f"driver rejected request: {ans}")
            impl = run_impl(case)
            kind = case["kind"]
            stream = kind if kind != "persist" else f"persist-{case['variant']}-{'exact' if case['exact'] else 'tol'}"
            ck.case(case, nontrivial=nontrivial(case), stream=stream)
            for s in case.get("styles", []):
                ck.count(f"frame={s}")
            if kind == "persist":
                ck.count(f"species={len(case['taus'])}")
                ck.count(f"steps={len(case['adds'])}")
            if kind == "cdm":
                ck.count(f"cdm-{case['direction']}")
            if kind == "collect":
                ck.count(f"collect-steps={len(case['steps'])}")
                for m in case["gen_modes"]:
                    ck.count(f"collect-generated-as={m}")
            if "error" in impl:
                ck.count(f"impl-error={impl['error']}")
            for clause, why in property_predicate(case, impl):
                ck.violation(f"C15:{clause}" + (f":{case['variant']}" if kind == "persist" else ""), why, {"case": case, "impl": impl})
            diff = compare(case, impl, ans)
            if diff:
                ck.disagreement(stream, case, {"impl": impl, "why": diff}, ans)
    finally:
        shutil.rmtree(TMP, ignore_errors=True)
    ck.count("persist-dyadic-values-not-bit-exact", INEXACT[0])
    ck.rule = ("real CCD/CMOS detectors, frames 1×1…6×6: empty, saturated, single hot pixel, sparse, random, integer and fractional; "
               "collection of charge generated as arrays and/or clusters, 1–4 steps with and without reset, also histories 'charge read, clusters "
               "changed in place (set_frame_values number / position, remove_from_frame ids), then collected'; expected value from the generated "
               "quantities only / QE (sampling on & off, argument or characteristics) / full well (values at capacity ±1 ulp; pixels up to 1e300 and 2^54× above non-round capacities, single hot pixels, float32 frames with float32-representable capacities; exact comparison with min(charge, capacity) per pixel, applied twice = applied once) / "
               "IPC (valid, guard-edge and invalid couplings; uniform and random frames) / CDM parallel & serial, 1–5 species, charge "
               "injection, parameters over their documented ranges, plus a strong-trapping stream (densities 1e12–1e15, 2–5 species, "
               "bright packets followed by dark register elements) / persistence simple & map-based, 1–5 species, 1–5 steps with "
               "signal drops, with and without capacities; dyadic stream compared exactly, general stream at 1e-9. "
               "non-trivial = non-zero input frame (persistence: ≥ 2 species and non-zero charge); distinct by canonical JSON")
    ck.assumptions = [
        "documented parameter ranges: QE, densities, proportions in [0,1]; beta in [0,1]; max_electron_volume in (0,1] and transfer_period in (0,10] "
        "(0 makes alpha = x/0: NaN/inf, outside the statement); positive time constants; trap densities, cross-sections, capacities ≥ 0; "
        "couplings satisfying ipc_kernel's guards; non-negative finite frames",
        "comparison: exact rationals for collection, QE product, full well (single-operation models); the dyadic persistence stream is built to be "
        "bit-exact (distribution key persist-dyadic-values-not-bit-exact counts the values that were not, 1e-9 applies to those); "
        "relative tolerance 1e-9 (per pixel and on totals) for IPC (FFT), CDM (libm exp/pow) and non-dyadic persistence",
        "binomial sampling is numpy's: only its contract 0 ≤ k ≤ n = ⌊photons⌋ is used (checked on every sampled case)",
        "CDM: a pixel within 1e-6 relative of the 0.01 e- cut may fall on either side in the two implementations of exp/pow; the rest of that transfer line is then not compared",
    ]
    ck.trusted_base.append("C15: numpy elementwise + - * min / boolean-mask assignment, astropy convolve_fft(boundary='fill') = direct 3×3 convolution with constant padding (exercised at 1e-9), numba njit loops = their Python reading, libm exp/pow within 1e-9")


def replay_main(path):
    global TMP
    common.ensure_repo_on_path()
    rp = json.load(open(path))
    case = rp["replay"].get("case")
    if case is None:
        print("replay names a broken obligation/correspondence, no concrete input:", rp["what"])
        return 1
    TMP = tempfile.mkdtemp(prefix="verif-c15-")
    try:
        impl = run_impl(case)
    finally:
        shutil.rmtree(TMP, ignore_errors=True)
    findings = property_predicate(case, impl)
    print("impl:", json.dumps(impl)[:1500])
    for clause, why in findings:
        print(f"REPRODUCED: [{clause}] {why}")
    if not findings:
        print("not reproduced (property holds on this input)")
    return 1 if findings else 0


if __name__ == "__main__":
    if len(sys.argv) > 2 and sys.argv[1] == "--replay":
        sys.exit(replay_main(sys.argv[2]))
    sys.exit(run_check("C15", body))
