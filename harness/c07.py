"""C07 — parallel execution yields the same results as sequential execution (partial: see rule/assumptions).

obligations: lean/PyxelModel/Props/C07.lean (schedule-independent assembly for all completion orders / worker
             assignments / re-executions, row-major file index bijection, create_params of the three modes = the
             sequential path's enumeration)
tie to code : the same generated observation is run on the sequential path and on the dask path under the
              `synchronous`, `threads` (1, 2, 4, 16 workers) and `processes` schedulers, with data-dependent delays
              inside the probes; values are joined *by label*; files on disk are matched with the Lean model's tasks;
              seeded-stochastic pipelines (pipeline seed and per-model seed); a tiny calibration under several
              schedulers / batch-evaluator chunk sizes / island creation orders, champions compared bit for bit.
"""

from __future__ import annotations

import glob
import json
import os
import shutil
import sys
import tempfile

import c05
import common
from common import LeanDriver, run_check

CONFIGS = [("synchronous", None), ("threads", 1), ("threads", 2), ("threads", 4), ("threads", 16), ("processes", 3)]


# ------------------------------------------------------------------ generator
APD_KEYS = ["detector.characteristics.pixel_reset_voltage", "detector.characteristics.avalanche_gain"]


def gen_apd_case(rng, mode, alphabetical):
    """APD detector, a sweep over two INTERDEPENDENT settings (each setter recomputes the other from the bias), declared
    in alphabetical or in non-alphabetical key order: both paths must apply them in the declared order"""
    import pyx

    case = c05.gen_case(rng, mode=mode, with_dask=True, flavour="plain", max_runs=4, off_model=False)
    case["detector_kind"], case["construction"] = "APD", "python"
    case["params"] = [p for p in case["params"] if p["key"].startswith("pipeline.")][:1]
    vals = {APD_KEYS[0]: rng.sample([4.0, 6.0, 5.5, 4.5], 2), APD_KEYS[1]: rng.sample([3.0, 2.5, 4.0, 1.5], 2)}
    order = sorted(APD_KEYS) if alphabetical else sorted(APD_KEYS, reverse=True)
    for k in order:
        case["params"].insert(rng.randrange(len(case["params"]) + 1) if False else len(case["params"]),
                              {"key": k, "decl": vals[k], "expect": vals[k], "enabled": True, "multi": False})
    case["fields"] = ["characteristics.avalanche_gain", "characteristics.common_voltage", "characteristics.pixel_reset_voltage"]
    ch = pyx.make_detector("APD", 3, 4).characteristics
    case["extra_defaults"] = {"detector.characteristics.avalanche_gain": float(ch.avalanche_gain),
                              "detector.characteristics.pixel_reset_voltage": float(ch.pixel_reset_voltage)}
    case.update({"stochastic": None, "seed": 1, "delay_ms": rng.choice([0.0, 1.0]), "no_model": True})
    return case


def gen_case(rng, mode=None, stochastic=None, custom_kind=None, adc=None, clock=None, off_model=None):
    case = c05.gen_case(rng, mode=mode, with_dask=True, off_model=off_model,
                        flavour=rng.choice(["plain", "fine", "vectors", "two_models_same_arg", "same_model_two_groups",
                                            "field_vs_arg"]), max_runs=12)
    if case["mode"] == "custom":
        # the parallel path's own conversion of the table: single-placeholder lists and shifted column ranges
        custom_kind = custom_kind or rng.choice(["plain", "w1", "shift", "both", "vector_first"])
        if custom_kind in ("w1", "both"):
            cands = [p for p in case["params"] if p["key"].startswith("pipeline.") and not p.get("on_disabled_model")]
            for p in cands:
                if p is cands[0] or rng.random() < 0.3:
                    p["width"], p["decl"], p["enabled"] = 1, ["_"], True
        if custom_kind == "vector_first":
            # a list of placeholders FOLLOWED by further enabled parameters: the column cursor must advance by its width
            cands = [p for p in case["params"] if p["key"].startswith("pipeline.") and not p.get("on_disabled_model")]
            if cands:
                v = cands[0]
                v["width"], v["enabled"] = rng.choice([2, 3]), True
                v["decl"] = ["_"] * v["width"]
                rest = [p for p in case["params"] if p is not v]
                for p in rest:
                    p["enabled"] = not p.get("on_disabled_model")
                case["params"] = [v] + rest
        case["table"] = c05.gen_table(rng, case["params"])
        case["col_start"] = rng.choice([1, 2]) if custom_kind in ("shift", "both") else 0
    if adc is None:
        adc = case["mode"] != "custom" and rng.random() < 0.25
    if adc and case["mode"] != "custom":
        # a swept setting that changes a bucket's dtype: the ADC resolution decides the dtype of the image
        bits = rng.sample([8, 12, 16, 24, 32], rng.choice([2, 3]))
        if adc == "wide" or rng.random() < 0.4:
            # the first combination (smallest resolution) has at most 32 bits, a later one more, with codes >= 2**32
            bits = [rng.choice([8, 16, 32]), rng.choice([40, 48, 64])] + ([24] if rng.random() < 0.5 else [])
            rng.shuffle(bits)
        case["params"].append({"key": "detector.characteristics.adc_bit_resolution", "decl": bits, "expect": bits,
                               "enabled": True, "multi": False})
        case["fields"] = sorted(set(case["fields"]) | {"characteristics.adc_bit_resolution"})
        case["adc"] = rng.choice([200, 60000, 3000000]) if max(bits) <= 32 else rng.choice([2**32 + 5, 2**40 + 123, 2**33])
    if clock is None:
        clock = rng.random() < 0.2
    if clock:
        # several readouts with UNEQUAL steps and a probe whose output is the readout cursor it sees (time, time_step,
        # pipeline_count), sleeping between steps; no pipeline seed (its lock would serialise the runs)
        case["readout_times"] = rng.choice([[1.0, 3.0, 4.0], [0.5, 1.0, 3.0], [2.0, 2.5, 6.0, 6.5]])
        case["non_destructive"] = rng.random() < 0.5
        case["clock"] = True
        stochastic = False
    stochastic = rng.choice([None, None, "pipeline_seed", "model_seed"]) if stochastic is None else stochastic
    case["stochastic"] = stochastic or None
    case["seed"] = rng.randrange(1, 10000)
    case["delay_ms"] = rng.choice([0.0, 1.0, 2.0, 3.0])
    return case


def extra_models(case):
    """the stochastic probe (after every stamp probe, before the field recorder), slot = nslots(case); the image
    writer whose dtype follows the ADC resolution"""
    adc = {"readout_electronics": [{"name": "adc", "func": "obsprobes.adc_image", "arguments": {"value": case["adc"]}}]} \
        if case.get("adc") else None
    if case.get("clock"):
        return {"readout_electronics": [{"name": "clk", "func": "obsprobes.clock",
                                         "arguments": {"slot": c05.nslots(case), "delay_ms": 2.0}}]
                + (adc or {}).get("readout_electronics", [])}, 1
    if not case.get("stochastic"):
        return adc, 0
    args = {"slot": c05.nslots(case), "n": 3, "delay_ms": 1.0 if case["delay_ms"] else 0.0}
    if case["stochastic"] == "model_seed":
        args["seed"] = case["seed"]
    return {"readout_electronics": [{"name": "rnd", "func": "obsprobes.draw", "arguments": args}] + (adc or {}).get("readout_electronics", [])}, 1


# ------------------------------------------------------------------ implementation side
def run_path(case, parallel, scheduler="synchronous", workers=None, outputs=False):
    extra, extra_slots = extra_models(case)
    outputs = outputs and not case.get("clock") and not case.get("no_model")  # (files stream: single readout, modelled fields)
    out_dir = tempfile.mkdtemp(prefix="verif-c07-out-") if outputs else None
    try:
        res = c05.run_impl(case, scheduler=scheduler, num_workers=workers, with_dask=parallel,
                           delay_ms=case["delay_ms"] if parallel else 0.0, outputs_dir=out_dir,
                           pipeline_seed=case["seed"] if case.get("stochastic") == "pipeline_seed" else None,
                           extra=extra, extra_slots=extra_slots, with_image=bool(case.get("adc")),
                           all_times=bool(case.get("clock")))
        if outputs and "error" not in res:
            res["files"] = read_files(res.get("output_dir"), c05.nslots(case) + extra_slots)
        return res
    finally:
        if out_dir:
            shutil.rmtree(out_dir, ignore_errors=True)


def read_files(folder, n_slots):
    """{file index: first n_slots pixels} of every detector_pixel_<k>.npy under the run's output folder"""
    import numpy as np

    out = {}
    if not folder:
        return out
    for path in glob.glob(os.path.join(folder, "**", "detector_pixel_*.npy"), recursive=True):
        stem = os.path.basename(path)[len("detector_pixel_"):-len(".npy")]
        arr = np.load(path)
        out[stem] = [c05.num(x) for x in arr.reshape(-1)[:n_slots]]
    return out


def join_key(case, entry):
    """what identifies a parameter combination on both paths: the run id (sequential / custom mode) or the
    parameter values (product mode; the `<name>_id` position labels exist on the sequential path only)"""
    if case["mode"] != "product":
        return common.canon(entry["labels"].get("id"))
    return common.canon({k: v for k, v in entry["labels"].items() if not k.endswith("_id")})


def by_label(case, res):
    out = {}
    for e in res["entries"]:
        out.setdefault(join_key(case, e), []).append(e["data"] + ([["image", e["image"]]] if "image" in e else []))
    return out


# ------------------------------------------------------------------ Lean side
def argsort_values(values):
    """pandas' axis order for `MultiIndex.from_product(...).to_xarray()`: sorted levels"""
    def key(v):
        return tuple(key(x) for x in v) if isinstance(v, (list, tuple)) else v
    return sorted(range(len(values)), key=lambda i: key(values[i]))


def lean_request(case):
    req = c05.lean_request(case)
    if case["mode"] == "product":
        req["orders"] = [argsort_values(p["expect"]) for p in c05._unique_enabled(case)]
    return req


def model_tasks(case, ans):
    """{file index: expected data vector} according to the Lean model of create_params + file numbering"""
    if "error" in ans:
        return {"error": ans["error"]}
    out = {}
    for t in ans["tasks"]:
        if case["mode"] == "custom":
            a = {}
            for k, v in t["params"]:
                if v is None:
                    return {"error": "short row"}
                a[k] = json.loads(v[1]) if v[0] == "s" else [json.loads(x) for x in v[1]]
        else:
            a = {k: json.loads(v) for k, v in t["params"]}
        out[str(t["file"])] = expected(case, {k: c05._decanon(v) for k, v in a.items()})
    return out


def expected(case, assignment):
    """expected fingerprint vector without the stochastic slot"""
    return c05.expected_data(case, assignment)


# ------------------------------------------------------------------ the statement on the implementation
def failure_class(case):
    if case["mode"] == "custom" and case.get("col_start", 0) > 0:
        return "custom-mode:column_range-start>0"
    if case["mode"] == "custom" and any(p["enabled"] and p["width"] == 1 for p in case["params"]):
        return "custom-mode:single-placeholder-list"
    return None


def predicate(case, ref, par, cfg):
    """None, or (key, text): parallel result ≠ sequential result for some combination / files not one-to-one"""
    cls = failure_class(case)
    tag = cls or f"{case['mode']}:{cfg[0]}"
    if "error" in ref:
        return None  # the sequential path itself fails: C05's business, nothing to compare with
    if "error" in par:
        return (tag if cls else f"{case['mode']}:dask-run-fails",
                f"sequential run succeeds, parallel run ({cfg[0]}, {cfg[1]} workers) fails: {par['msg']}")
    a, b = by_label(case, ref), by_label(case, par)
    if sorted(a) != sorted(b):
        return (tag if cls else f"{tag}:combinations", "the parallel result is labelled with other parameter combinations than the sequential one: "
                f"{sorted(set(b) - set(a))[:2]} vs {sorted(set(a) - set(b))[:2]}")
    for k in a:
        if a[k] != b[k]:
            stoch = ":stochastic" if case.get("stochastic") and not case.get("adc") and a[k][0][:-1] == b[k][0][:-1] else ""
            if case.get("adc") and [x[:-1] for x in a[k]] == [x[:-1] for x in b[k]]:
                stoch = ":image-dtype-fixed-by-first-combination"
            if stoch.startswith(":image"):
                return ("dask-output-dtype-fixed-by-first-combination",
                        f"combination {k}: a swept setting changes the image dtype; parallel bucket values {b[k]} differ from "
                        f"sequential {a[k]} (cast to the dtype of the first combination)")
            return ((tag if cls else f"{tag}:values") + stoch,
                    f"combination {k}: parallel bucket values {b[k]} differ from sequential {a[k]}")
    if "files" in par:
        files = par["files"]
        want = sorted(common.canon(e["data"]) for e in par["entries"])
        n = len(par["entries"])
        if sorted(files, key=lambda s: (len(s), s)) != [str(i) for i in range(n)]:
            return (f"{tag}:file-names", f"{n} combinations but files {sorted(files)[:12]}")
        if sorted(common.canon(v) for v in files.values()) != want:
            return (f"{tag}:file-contents", "the files do not hold exactly one copy of every combination's data")
    return None


# ------------------------------------------------------------------ deprecated (still exported) parallel entry point
def check_deprecated_files(ck, case, workers):
    """`pyxel.observation_mode(..., with_dask=True)` with saved outputs: file `detector_pixel_array_<n+1>.npy` ↔
    combination n; judged: as many files as combinations, numbered 1..N, holding one copy of every combination's data"""
    import dask
    import numpy as np
    import obsprobes
    import pyxel
    from pyxel.outputs import ObservationOutputs

    tmp = tempfile.mkdtemp(prefix="verif-c07-dep-")
    cwd = os.getcwd()
    try:
        os.chdir(tmp)
        obsprobes.reset()
        det, pipe = c05.build_objects(case, delay_ms=max(1.0, case.get("delay_ms", 0.0)))
        out = ObservationOutputs(output_folder=tmp + "/out", save_data_to_file=[{"detector.pixel.array": ["npy"]}])
        obs = c05.build_observation(case, tmp, with_dask=True, outputs=out)
        try:
            import warnings

            # workers=None: the entry point's own default scheduler (dask.bag: a process pool — the processor is pickled)
            cfg = {"scheduler": "threads", "num_workers": workers} if workers else {}
            with warnings.catch_warnings(), dask.config.set(**cfg):
                warnings.simplefilter("ignore")
                pyxel.observation_mode(observation=obs, detector=det, pipeline=pipe)
        except Exception as e:  # noqa: BLE001
            ck.count("deprecated:observation_mode:" + common.err_kind(e) + ":" + str(e)[:80])
            ck.case({"deprecated": case, "workers": workers}, nontrivial=False, stream="deprecated-files")
            return
        files = {}
        for path in glob.glob(os.path.join(str(out.current_output_folder), "detector_pixel_array_*.npy")):
            k = os.path.basename(path)[len("detector_pixel_array_"):-len(".npy")]
            files[k] = [c05.num(x) for x in np.load(path).reshape(-1)[:c05.nslots(case)]]
        spec = c05.spec_runs(case)
        want = [c05.expected_data(case, r["assignment"]) for r in spec]
        ck.case({"deprecated": case, "workers": workers}, nontrivial=len(spec) >= 2, stream="deprecated-files")
        ck.count("deprecated:observation_mode:ok")
        names = sorted(files, key=lambda s: (len(s), s))
        if names != [str(i + 1) for i in range(len(spec))]:
            ck.violation("C07:deprecated-observation_mode:file-names",
                         f"pyxel.observation_mode with dask: {len(spec)} combinations but files numbered {names}",
                         {"deprecated": case, "workers": workers, "files": names})
        elif sorted(common.canon(v) for v in files.values()) != sorted(common.canon(v) for v in want):
            ck.violation("C07:deprecated-observation_mode:file-contents",
                         "pyxel.observation_mode with dask: the files do not hold exactly one copy of every combination's data",
                         {"deprecated": case, "workers": workers})
        elif [files[str(i + 1)] for i in range(len(spec))] != want:
            ck.disagreement("deprecated-file-index", case, [files[str(i + 1)] for i in range(len(spec))], want)
    finally:
        os.chdir(cwd)
        shutil.rmtree(tmp, ignore_errors=True)


# ------------------------------------------------------------------ lazy results set up one after the other
def check_lazy_interleaving(ck, rng):
    """two lazy dask results from the SAME Observation (same outputs object): the first is computed only after the
    second has been set up.  The files of each observation must be one-to-one with its own combinations, in its own
    folder."""
    import dask
    import numpy as np
    import obsprobes
    import pyx
    import pyxel
    from pyxel.observation import Observation, ParameterValues
    from pyxel.outputs import ObservationOutputs

    vals = rng.sample(range(1, 50), rng.choice([2, 3, 4]))
    case = {"lazy_values": vals, "order": rng.choice(["first-then-second", "second-then-first"])}
    tmp = tempfile.mkdtemp(prefix="verif-c07-lazy-")
    cwd = os.getcwd()
    try:
        os.chdir(tmp)
        out = ObservationOutputs(output_folder=tmp, save_data_to_file=[{"detector.pixel.array": ["npy"]}])
        obs = Observation(parameters=[ParameterValues(key="pipeline.photon_collection.p.arguments.a", values=list(vals))],
                          mode="product", with_dask=True, outputs=out)

        def objs(tag):
            return pyx.make_detector("CCD", 3, 4), pyx.make_pipeline(
                {"photon_collection": [{"name": "p", "func": "obsprobes.stamp", "arguments": {"slot": 0, "a": 0, "tag": tag}}]})

        runs = []
        for tag in ("one", "two"):
            d, p = objs(tag)
            dt = pyxel.run_mode(mode=obs, detector=d, pipeline=p, with_inherited_coords=True)
            runs.append((tag, dt, str(out.current_output_folder)))
            # a new folder name needs a new second or the `_1` retry: both are fine
        order = runs if case["order"] == "first-then-second" else runs[::-1]
        with dask.config.set(scheduler="threads", num_workers=2):
            for tag, dt, folder in order:
                c05.find_bucket(dt)["pixel"].compute()
        ck.case({"lazy": case}, nontrivial=True, stream="lazy")
        ck.count("lazy:" + case["order"])
        for tag, dt, folder in runs:
            files = read_files(folder, 1)
            want = sorted(common.canon([c05.num(obsprobes.fingerprint({"a": v, "tag": tag}))]) for v in vals)
            got = sorted(common.canon(v) for v in files.values())
            if got != want:
                ck.violation("C07:lazy-runs-share-one-outputs-folder",
                             f"observation '{tag}' (folder {os.path.basename(folder)}): its folder holds {len(files)} file(s) "
                             f"{sorted(files)} which are not one-to-one with its {len(vals)} combinations (computing a lazy result "
                             "after another run of the same Observation was set up writes into the other run's folder)",
                             {"lazy": case})
                return
    finally:
        os.chdir(cwd)
        shutil.rmtree(tmp, ignore_errors=True)


# ------------------------------------------------------------------ calibration clause
CAL_ROWS, CAL_COLS = 3, 4


def cal_probe_pipeline(case):
    import pyx

    return pyx.make_pipeline({"photon_collection": [{"name": "wait", "func": "obsprobes.pause", "arguments": {"ms": 3.0}}],
                              "charge_generation": [
        {"name": "cal", "func": "obsprobes.level",
         "arguments": {"level": 1.0, "tilt": 0.0, "delay_ms": 1.0,
                       "noise": 0.25 if case["pipeline_seed"] is not None else 0.0,
                       "slow": [list(x) for x in case.get("slow", [])], "slow_ms": case.get("slow_ms", 0.0)}}]})


def run_calibration(case, scheduler, workers, chunk, parallel_islands):
    """a tiny seeded calibration; returns the champions (fitness / decision / parameters) as bit patterns"""
    import functools
    from unittest import mock

    import dask
    import numpy as np
    import pyx
    import pyxel
    import pyxel.calibration.calibration as calmod
    from pyxel.calibration import Algorithm, Calibration
    from pyxel.observation import ParameterValues
    from pyxel.pipelines import FitnessFunction

    tmp = tempfile.mkdtemp(prefix="verif-c07-cal-")
    cwd = os.getcwd()
    try:
        os.chdir(tmp)
        np.save(tmp + "/target.npy", np.full((CAL_ROWS, CAL_COLS), float(case["target"])))
        cal = Calibration(
            target_data_path=[tmp + "/target.npy"],
            fitness_function=FitnessFunction("pyxel.calibration.fitness.sum_of_abs_residuals"),
            algorithm=Algorithm(type="sade", generations=2, population_size=8),
            parameters=[ParameterValues(key="pipeline.charge_generation.cal.arguments.level", values="_",
                                        boundaries=(0.0, 20.0)),
                        ParameterValues(key="pipeline.charge_generation.cal.arguments.tilt", values="_",
                                        boundaries=(-1.0, 1.0))],
            result_type="pixel", result_fit_range=[0, CAL_ROWS, 0, CAL_COLS], target_fit_range=[0, CAL_ROWS, 0, CAL_COLS],
            pygmo_seed=case["pygmo_seed"], pipeline_seed=case["pipeline_seed"], num_islands=case["islands"],
            num_evolutions=2, topology=case["topology"],
        )
        # (defensive: if a tree reaches these classes under another name the variation is skipped, not an error)
        patches = []
        if chunk is not None and hasattr(calmod, "DaskBFE"):
            patches.append(mock.patch.object(calmod, "DaskBFE", functools.partial(calmod.DaskBFE, chunk_size=chunk)))
        if not parallel_islands and hasattr(calmod, "ArchipelagoDataTree"):
            patches.append(mock.patch.object(calmod, "ArchipelagoDataTree",
                                             functools.partial(calmod.ArchipelagoDataTree, parallel=False)))
        cfg = {"scheduler": scheduler}
        if workers:
            cfg["num_workers"] = workers
        try:
            for p in patches:
                p.start()
            with dask.config.set(**cfg):
                dt = pyxel.run_mode(cal, pyx.make_detector("CCD", CAL_ROWS, CAL_COLS), cal_probe_pipeline(case))
        except Exception as e:  # noqa: BLE001
            return {"error": common.err_kind(e), "msg": f"{type(e).__name__}: {e}"[:300]}
        finally:
            for p in patches:
                p.stop()
        ch = dt["/champion"]
        return {k: [common.float_bits(x) for x in np.asarray(ch[k].values, dtype=float).reshape(-1)]
                for k in ("fitness", "decision", "parameters")}
    finally:
        os.chdir(cwd)
        shutil.rmtree(tmp, ignore_errors=True)


def gen_cal_case(rng):
    islands = rng.choice([1, 2, 3])
    # with two or more *connected* islands pygmo migrates individuals asynchronously between its own island threads:
    # the outcome then differs between two identical runs (same scheduler, same seeds) — measured below, not compared
    topology = rng.choice(["unconnected", "ring", "fully_connected"]) if islands == 1 else \
        rng.choice(["unconnected", "unconnected", "unconnected", "ring", "fully_connected"])
    return {"target": rng.choice([3.0, 7.5, 11.25]), "pygmo_seed": rng.randrange(1, 100000),
            "pipeline_seed": rng.choice([None, rng.randrange(1, 1000)]), "islands": islands, "topology": topology}


def check_island_order(ck, rng):
    import obsprobes

    cc = {"target": rng.choice([3.0, 7.5, 11.25]), "pygmo_seed": rng.randrange(1, 100000), "pipeline_seed": None,
          "islands": rng.choice([3, 4]), "topology": "unconnected"}
    obsprobes.reset()
    base = run_calibration(cc, "synchronous", None, None, False)  # islands created one after the other
    first = [(r[1], r[2]) for r in obsprobes.LOG if r[0] == "level"][:8]  # = initial population (size 8) of island 0
    ck.case({"calibration": cc, "cfg": "sequential-island-creation"}, nontrivial="error" not in base, stream="calibration-islands")
    if "error" in base:
        ck.violation("C07:calibration:run-fails", f"calibration fails: {base['msg']}", {"calibration": cc, "cfg": ["synchronous", None, None, False]})
        return
    slow = dict(cc, slow=[list(x) for x in first], slow_ms=40.0)
    for cfg in (("threads", 4, None, True), ("synchronous", None, 3, True)):
        obsprobes.reset()
        res = run_calibration(slow, *cfg)
        ck.case({"calibration": slow, "cfg": cfg}, nontrivial="error" not in res, stream="calibration-islands")
        ck.count(f"calibration-islands:{cfg[0]}:first-island-delayed")
        if "error" in res:
            ck.violation("C07:calibration:run-fails", f"calibration fails under {cfg}: {res['msg']}",
                         {"calibration": slow, "cfg": list(cfg), "impl": res})
        elif res != base:
            ck.violation("C07:calibration:outcome-depends-on-island-creation-order",
                         f"{cc['islands']} unconnected islands, fixed seeds: the per-island champions with parallel island creation "
                         f"({cfg}, the first island's initial evaluations delayed) differ from those with sequential creation",
                         {"calibration": slow, "cfg": list(cfg), "base_cfg": ["synchronous", None, None, False],
                          "impl": res, "base": base})


CAL_CONFIGS = [("synchronous", None, None, False), ("threads", 1, 1, True), ("threads", 4, 3, True),
               ("threads", 16, None, True), ("threads", 2, 8, False)]


# ------------------------------------------------------------------ check body
def body(ck: common.Check):
    ck.obligations(["PyxelModel.Props.C07"], ["PyxelModel.Drive.C07"])
    rng = ck.rng
    quick = ck.tier == "quick"
    cases = []
    for mode in ("product", "sequential", "custom"):
        for st in (None, "pipeline_seed", "model_seed"):
            cases.append(("directed", gen_case(rng, mode=mode, stochastic=st or False, custom_kind="plain", adc=False, clock=False)))
    for mode, adc in (("product", True), ("sequential", "wide"), ("product", "wide")):
        cases.append(("directed", gen_case(rng, mode=mode, stochastic=False, adc=adc, clock=False)))
    for mode in ("product", "sequential"):
        cases.append(("directed", gen_case(rng, mode=mode, adc=False, clock=True)))
    # APD: two interdependent detector settings, declared in both key orders (product and sequential mode)
    for mode, alpha in (("product", False), ("sequential", False), ("product", True)):
        cases.append(("directed", gen_apd_case(rng, mode, alpha)))
    # a switched-off model that would change the data, run under the process pool (the processor is pickled)
    c = gen_case(rng, mode="product", stochastic=False, adc=False, clock=False, off_model=True)
    c["force_processes"] = True
    cases.append(("directed", c))
    for kind in ("w1", "shift", "both", "vector_first"):
        for _ in range(30):
            c = gen_case(rng, mode="custom", stochastic=False, custom_kind=kind, clock=False, off_model=False)
            if kind != "vector_first" or sum(p["enabled"] for p in c["params"]) >= 2:
                break
        cases.append(("directed", c))
    for _ in range(5 if quick else 150):
        cases.append(("random", gen_case(rng)))
    answers = LeanDriver("C07").batch([lean_request(c) for _, c in cases])
    second = []  # (case, observed completion order) for the assembly model
    n_proc = 0
    for n, ((stream, case), ans) in enumerate(zip(cases, answers)):
        if "bad" in ans:
            raise common.InfraError(f"driver rejected request: {ans}")
        ref = run_path(case, parallel=False)
        tasks = {"error": "not modelled"} if case.get("no_model") else model_tasks(case, ans)
        # every case: synchronous + two thread pools (rotating) ; processes on a few
        cfgs = [CONFIGS[0], CONFIGS[1 + n % 4], CONFIGS[1 + (n + 2) % 4]]
        if case.get("force_processes") or (n % (14 if quick else 10)) == 0:
            cfgs = cfgs[:2] + [CONFIGS[5]] if case.get("force_processes") else cfgs + [CONFIGS[5]]
            n_proc += 1
        if not quick:
            cfgs = CONFIGS[:5] + cfgs[3:]
        if case.get("clock"):
            cfgs = [("threads", 4), ("threads", 8), CONFIGS[0]]
        for cfg in cfgs:
            par = run_path(case, parallel=True, scheduler=cfg[0], workers=cfg[1], outputs=True)
            ck.case({"case": case, "cfg": cfg}, nontrivial="error" not in par and len(par.get("entries", [])) >= 2,
                    stream=stream)
            ck.count(f"scheduler={cfg[0]}" + (f"x{cfg[1]}" if cfg[1] else ""))
            why = predicate(case, ref, par, cfg)
            if why is not None:
                ck.violation("C07:" + why[0], why[1], {"case": case, "cfg": list(cfg), "ref": ref, "par": par})
            # model: file k holds the data of task k of the parameter array
            if case.get("no_model"):
                continue
            if "error" not in par and "error" not in tasks and "files" in par:
                es = 1 if case.get("stochastic") else 0
                files = {k: (v[:-es] if es else v) for k, v in par.get("files", {}).items()}
                if files != tasks:
                    ck.disagreement(stream + "-files", case, files, tasks, key="C07:" + (failure_class(case) or ""))
                ex = par.get("exec")
                if isinstance(ex, list) and cfg[0] != "processes":
                    # observed completion order (as file indices) → assembly model
                    inv = {}
                    for k, v in tasks.items():
                        inv.setdefault(common.canon(v), []).append(int(k))
                    sigma, used = [], {}
                    for vec in ex:
                        ks = inv.get(common.canon(vec[:-es] if es else vec), [])
                        if ks:
                            i = used.get(common.canon(vec), 0)
                            sigma.append(ks[i % len(ks)])
                            used[common.canon(vec)] = i + 1
                    if sigma != sorted(sigma):
                        ck.count("completion_order_perturbed")
                    if len(second) < 400:
                        second.append((case, cfg, sigma, len(tasks)))
            elif ("error" in par) != ("error" in tasks) and "error" not in ref:
                ck.disagreement(stream + "-refusal", case, par.get("error", "ok"), tasks.get("error", "ok"),
                                key="C07:" + (failure_class(case) or ""))
        ck.count(f"mode={case['mode']}")
        ck.count(f"stochastic={case.get('stochastic')}")
        ck.count("runs", len(ref.get("entries", [])))
    # assembly model on the observed completion orders (including the metadata run = a re-execution)
    reqs = []
    for case, cfg, sigma, n in second:
        r = lean_request(case)
        r["sigma"], r["workers"] = sigma, cfg[1] or 1
        reqs.append(r)
    for (case, cfg, sigma, n), ans in zip(second, LeanDriver("C07").batch(reqs)):
        if set(sigma) >= set(range(n)) and ans.get("assembled") != list(range(n)):
            ck.disagreement("assembly", case, list(range(n)), ans.get("assembled"))
    for _ in range(2 if quick else 12):
        check_lazy_interleaving(ck, rng)
    # the deprecated parallel entry point, files ↔ combinations (product and sequential mode)
    ndep = 0
    for mode in ["product", "sequential", "product"] + [rng.choice(["product", "sequential"]) for _ in range(0 if quick else 30)]:
        for _ in range(40):
            c = c05.gen_case(rng, mode=mode, with_dask=True, flavour=rng.choice(["plain", "fine"]), max_runs=10,
                             off_model=(ndep % 3 == 1))
            en = c05._unique_enabled(c)  # noqa: SLF001
            # the deprecated path assembles its result with combine_by_coords: scalar parameters with >= 2 values each
            if len(c05.spec_runs(c)) >= 3 and all(not p.get("multi") and len(p["expect"]) >= 2 for p in en):
                break
        c["delay_ms"] = rng.choice([1.0, 2.0, 3.0])
        check_deprecated_files(ck, c, workers=[4, None, 8][ndep % 3])
        ndep += 1
    # calibration clause, directed: the FIRST-created island is made to finish its creation LAST (its initial candidates —
    # read from a run with sequential island creation — are evaluated slowly), three or four unconnected islands, fixed
    # seeds: island i of the result must still be the island built from seed i
    for i in range(2 if quick else 8):
        check_island_order(ck, rng)
    ncal = 1 if quick else 12
    for i in range(ncal):
        cc = gen_cal_case(rng)
        base = None
        if cc["islands"] > 1 and cc["topology"] != "unconnected":
            a, b = run_calibration(cc, *CAL_CONFIGS[0]), run_calibration(cc, *CAL_CONFIGS[0])
            ck.case({"calibration": cc, "cfg": "repeat"}, nontrivial=False, stream="calibration-connected")
            ck.count("calibration:connected-topology:" + ("repeatable" if a == b else "NOT-repeatable-under-one-schedule"))
            continue
        for cfg in (CAL_CONFIGS if not quick else CAL_CONFIGS[:1] + [CAL_CONFIGS[1 + i % 4], CAL_CONFIGS[1 + (i + 1) % 4]]):
            res = run_calibration(cc, *cfg)
            ck.case({"calibration": cc, "cfg": cfg}, nontrivial="error" not in res, stream="calibration")
            ck.count(f"calibration:{cfg[0]}x{cfg[1]}:chunk={cfg[2]}:parallel_islands={cfg[3]}")
            if "error" in res:
                ck.violation("C07:calibration:run-fails", f"calibration fails under {cfg}: {res['msg']}",
                             {"calibration": cc, "cfg": list(cfg), "impl": res})
                continue
            if base is None:
                base = (cfg, res)
            elif res != base[1]:
                ck.violation("C07:calibration:outcome-depends-on-schedule",
                             f"champions differ between {base[0]} and {cfg} for the same seeds",
                             {"calibration": cc, "cfg": list(cfg), "base_cfg": list(base[0]), "impl": res, "base": base[1]})
    ck.extra["processes_scheduler_cases"] = n_proc
    ck.rule = ("observations from C05's generator (three modes, collision flavours, vector values, custom tables with shifted "
               "column ranges and single-placeholder lists) with data-dependent delays in every probe, optionally a seeded "
               "stochastic probe (pipeline seed / model seed); each run on the sequential path and on the dask path under "
               "synchronous, threads×{1,2,4,16} (rotating in quick, all in thorough) and processes×3 (every 6th/10th case); "
               "values joined by label (pixel bucket, and the image bucket when a swept ADC resolution changes its dtype), output "
               "files matched with the model's tasks; two lazy results of one Observation computed after both were set up; tiny seeded calibrations (sade, 1-3 islands, "
               "three topologies) under schedulers × DaskBFE chunk sizes × island creation parallel/sequential; directed: 3-4 unconnected "
               "islands whose first-created island is forced to finish creation last (its initial candidates evaluated slowly), "
               "per-island champions compared with sequential creation; "
               "non-trivial = parallel run with at least two combinations")
    ck.assumptions = [
        "PARTIAL: the theorem assumes task purity (each run is a function of the base configuration and its own parameters: "
        "C06, measured there per generated configuration) and seed scoping (C04); data races inside third-party code and "
        "the GIL are not modelled; interleavings are observed (perturbed by delays), not controlled",
        "pandas orders each axis of the product-mode parameter array by sorted value; the harness passes that order to the model "
        "and the theorem createParams_product holds for every per-axis permutation",
        "value lists without repeated values; numbers compared by value",
        "calibration clause: islands are unconnected or there is one island — with two or more connected islands pygmo's own "
        "asynchronous migration makes two identical runs differ (counted in the distribution, not compared)",
    ]
    ck.trusted_base.append("C07: dask schedulers execute every task of the graph at least once and xarray.apply_ufunc stores each block "
                           "at its own position; pygmo's evolution is a deterministic function of its seeds and of the fitness values")


def replay(path):
    common.ensure_repo_on_path()
    rp = json.load(open(path))
    r = rp["replay"]
    if "calibration" in r:
        cc = r["calibration"]
        a = run_calibration(dict(cc, slow=[], slow_ms=0.0), *tuple(r.get("base_cfg", CAL_CONFIGS[0])))
        b = run_calibration(cc, *r["cfg"])
        bad = "error" in b or a != b
        print("REPRODUCED: calibration outcome differs / fails" if bad else "not reproduced (property holds on this input)")
        return 1 if bad else 0
    if "deprecated" in r:
        ck = common.Check("C07", "quick")
        for _ in range(3):  # the completion order varies: a few attempts
            check_deprecated_files(ck, r["deprecated"], r.get("workers", 4))
            if ck.violations:
                break
        print("REPRODUCED: " + ck.violations[0]["what"] if ck.violations else "not reproduced (property holds on this input)")
        return 1 if ck.violations else 0
    if "lazy" in r:
        import random

        ck = common.Check("C07", "quick")

        class _R(random.Random):
            def sample(self, pop, k):
                return list(r["lazy"]["lazy_values"])

            def choice(self, seq):
                return r["lazy"]["order"] if "first-then-second" in seq else len(r["lazy"]["lazy_values"])

        check_lazy_interleaving(ck, _R(0))
        print("REPRODUCED: " + ck.violations[0]["what"] if ck.violations else "not reproduced (property holds on this input)")
        return 1 if ck.violations else 0
    case = r.get("case")
    if case is None:
        print("replay names a broken obligation/correspondence, no concrete input:", rp["what"])
        return 1
    cfg = tuple(r.get("cfg", CONFIGS[0]))
    ref = run_path(case, parallel=False)
    par = run_path(case, parallel=True, scheduler=cfg[0], workers=cfg[1], outputs=True)
    why = predicate(case, ref, par, cfg)
    print("sequential:", json.dumps(ref, default=str)[:600])
    print("parallel  :", json.dumps(par, default=str)[:600])
    print("REPRODUCED: " + why[1] if why else "not reproduced (property holds on this input)")
    return 1 if why else 0


if __name__ == "__main__":
    if len(sys.argv) > 2 and sys.argv[1] == "--replay":
        sys.exit(replay(sys.argv[2]))
    sys.exit(run_check("C07", body))
